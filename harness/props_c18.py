"""C18: reports say what was scheduled -- decided by spec/Report.tla on observations of the real report code."""
import json
import os
import random
import subprocess
import tempfile
import shutil

from harness import gen, tlaval
from harness.build import scratch_build, env_for, PY, MachineryError
from harness.common import Run, phash
from harness.tlc import run_tlc

FORMATS = ["%Y-%m-%d-%H:%M", "%Y-%m-%d %H:%M:%S", "%d.%m.%Y %H:%M", "%Y-%m-%d", "%Y%m%dT%H%M%S", "%H:%M %d/%m/%y"]
COLSETS = [["id", "start", "end"], ["id", "effort", "start"], ["id", "start", "end", "effort", "priority"], ["id", "end"],
           ["id", "cost", "effort"], ["id", "start", "end", "cost"]]


def report_defs(rng, k, scen_ids=()):
    """k task report definitions; with scenarios, a report may name the one it shows (rows, dates and money columns are
    then those of that scenario).  Returns (text, {report id: scenario id or None})."""
    out = []
    which = {}
    fmts = {}
    hides = {}
    for i in range(k):
        cols = rng.choice(COLSETS)
        lines = ['taskreport rep%d "rep%d" {' % (i, i), "  formats json, csv", "  columns " + ", ".join(cols)]
        which["rep%d" % i] = None
        if scen_ids and rng.random() < 0.7:
            which["rep%d" % i] = rng.choice(list(scen_ids))
            lines.append("  scenarios %s" % which["rep%d" % i])
        fmts["rep%d" % i] = None
        if rng.random() < 0.8:
            fmts["rep%d" % i] = rng.choice(FORMATS)        # the report's own format is the effective one, whatever it looks like
            lines.append('  timeformat "%s"' % fmts["rep%d" % i])
        if rng.random() < 0.4:
            lines.append("  leaftasksonly true")
        hides["rep%d" % i] = rng.choice(["", "@none", "@all", "red", "~red", "blue", "~blue", "~red", "~isleaf()", "~isleaf()"])      # (the grammar reads the query function only behind '~')      # '~flag': containers go, flagged leaves inside them stay
        if hides["rep%d" % i]:
            lines.append("  hidetask %s" % hides["rep%d" % i])      # '@none' hides nothing, a flag name the tasks that carry it
        lines.append("}")
        out.append("\n".join(lines))
    return "\n".join(out) + "\n", which, fmts, hides


def check(prop, tier, replay=None):
    run = Run("C18", tier)
    run.cov["rule"] = ("generated scheduled projects (trees with unschedulable leaves, DAGs with containers, sub-slot efforts, resources with rates and "
                       "efficiencies) x 3 task reports each with random column selections out of {id,start,end,effort,priority,cost}, 6 time formats (lossless and "
                       "lossy), leaftasksonly on/off, formats json+csv; observed: in-memory JSON and CSV tables, generated files, schedule after 1..3 generations; "
                       "non-trivial = report over a project with a container and either an unscheduled leaf or a cost column")
    run.assumptions = ["datetime.strftime / strptime of CPython render the abstract instants", "money compared within one cent (two printed decimals)"]
    rng = random.Random(run.seed * 7 + 18)
    n = 30 if tier == "quick" else 300
    jobs = []
    for name in ("trees", "dags", "chain_subslot", "teams_alts", "infeasible", "dup_leaf_ids"):
        for pid, p in getattr(gen, name)(rng, n):
            for r in p.res:
                if not r.kids and rng.random() < 0.7:
                    r.rate = rng.choice([10, 55.5, 120, 33.33])
                elif r.kids and rng.random() < 0.4:
                    r.rate = rng.choice([70, 12.5])          # a group's rate is the rate of its members that state none
            if rng.random() < 0.3:
                p.global_rate = rng.choice([80.0, 45])       # 'rate' at global scope: the default of every resource
            solo = [t for t in p.tasks if not t.kids and len(t.alloc) == 1 and not t.alt]
            if solo and rng.random() < 0.25:
                t = rng.choice(solo)
                t.alloc = [t.alloc[0], t.alloc[0]]            # the same resource named twice: it works (and costs) once
            if rng.random() < 0.5:
                p = gen.renamed(p, rng, reuse_across_parents=True)      # same leaf id under different containers
            scen_ids = ()
            if p.scenarios is None and rng.random() < 0.35:
                # a second (nested) scenario in which some tasks need a different effort: booked time, dates and money differ
                p.scenarios = [("plan", [("delayed", [])])]
                scen_ids = ("plan", "delayed")
                for t in p.tasks:
                    if not t.kids and t.effort and rng.random() < 0.6:
                        t.scen["delayed"] = {"effort": t.effort * rng.choice([2, 3]) if rng.random() < 0.7 else max(p.G, t.effort // 2 // p.G * p.G)}
            # flags on leaves below unflagged containers (what a container's flag means for the tasks inside is not claimed)
            p.flag_decl = ["red", "blue"]
            for t in p.tasks:
                if not t.kids and rng.random() < 0.55:
                    t.flags = list(t.flags) + [rng.choice(["red", "red", "red", "blue"])]
            p.extra, which, fmts, hides = report_defs(rng, 3, scen_ids)
            # the effective time format by the generator: the report's own, else the one the project header declares
            jobs.append({"id": "C18-" + pid, "text": p.render(), "report_scenario": which, "rates": gen.effective_rates(p),
                         "report_fmt": {k: (v or "%Y-%m-%d %H:%M") for k, v in fmts.items()}, "report_hide": hides,
                         "task_flags": {p.full(t): [f for f in t.flags if f in ("red", "blue")] for t in p.tasks}})
    if replay:
        jobs = [json.load(open(replay))]
    with scratch_build() as scr:
        wd = tempfile.mkdtemp(prefix="sprep_")
        try:
            procs = []
            nproc = min(14, len(jobs))
            for i in range(nproc):
                jp, op = os.path.join(wd, "j%d" % i), os.path.join(wd, "o%d" % i)
                with open(jp, "w") as f:
                    for j in jobs[i::nproc]:
                        f.write(json.dumps(j) + "\n")
                procs.append((subprocess.Popen([PY, "-m", "harness.reportrun", jp, op], env=env_for(scr, hooks=False), cwd=wd,
                                               stdout=subprocess.DEVNULL, stderr=subprocess.PIPE, text=True), op))
            obs = []
            for p, op in procs:
                _, err = p.communicate(timeout=3000)
                if p.returncode != 0:
                    raise MachineryError("report runner failed: " + (err or "")[-1200:])
                obs += [json.loads(l) for l in open(op) if l.strip()]
            errs = [o for o in obs if "error" in o]
            if errs and not replay:
                by = {j["id"]: j for j in jobs}
                for e in errs[:10]:
                    run.violation(e["id"] + "-crash", by[e["id"]], {"why": "report generation raised", "error": e["error"][-500:]})
            obs = [o for o in obs if "error" not in o]
            path = os.path.join(wd, "obs.ndjson")
            with open(path, "w") as f:
                for o in obs:
                    f.write(json.dumps(o) + "\n")
            res = run_tlc("Report", "Report.cfg", env_extra={"REP_FILE": path}, timeout=3000)
        finally:
            shutil.rmtree(wd, ignore_errors=True)
        if res.error:
            raise MachineryError("TLC failed on Report:\n" + res.out[-2000:])
        run.add_tlc(res)
        verdicts = {}
        for raw in res.tuples("REPORT"):
            _, oid, probs = tlaval.parse(raw)
            verdicts[oid] = list(probs)
        if len(verdicts) != len(obs):
            raise MachineryError("Report: %d verdicts for %d observations" % (len(verdicts), len(obs)))
        by = {j["id"]: j for j in jobs}
        for o in obs:
            run.evaluated()
            conts = any(not t["leaf"] for t in o["tasks"])
            if conts and (any(t["leaf"] and not t["sched"] for t in o["tasks"]) or "cost" in o["def"]["columns"]):
                run.nontrivial(phash([o["tasks"], o["def"]]))
            if verdicts[o["id"]]:
                run.violation(o["id"], by[o["id"].split("/")[0]], {"report": o["id"], "definition": o["def"], "problems": verdicts[o["id"]],
                                                                  "json_rows": o["json"][:4], "csv_rows": o["csv"][:4]})
        run.cov["traces_validated_against_impl"] += len(obs)
        for o in obs[:3]:
            run.sample({"report": o["id"], "definition": o["def"], "rows": o["json"][:3], "verdict": verdicts[o["id"]]})
    return run.finish()
