"""Relational properties: C09 (low-priority intruder), C14 (week shifts), C15 (spellings),
C16 (scenarios).  Every run is traced and validated against the scheduler spec (TraceSched);
the relation between runs is decided by spec/Relate.tla."""
import json
import os
import random
import re
import shutil
import tempfile
from datetime import datetime, timedelta

from harness import e1, gen, relate
from harness.build import scratch_build, MachineryError
from harness.common import Run, phash


def _strip_names(A):
    import copy
    B = copy.deepcopy(A)
    for t in B["tasks"]:
        t.pop("name", None)
    for r in B["res"]:
        r.pop("name", None)
    return B


def _trace(scr, jobs, run):
    recs = e1.run_impl(scr, jobs, nproc=14)
    for r in recs:
        if r.get("status") in ("lost",):
            raise MachineryError("runner lost job %s" % r["id"])
        if r.get("status") == "crash" and r.get("phase") in ("extract", "runner"):
            # the harness's own model extraction failed: nothing was observed, so nothing can be judged
            raise MachineryError("model extraction failed in the runner for %s:\n%s" % (r["id"], r.get("error", "")[-600:]))
    vs, res = e1.validate(recs)
    run.add_tlc(res)
    run.cov["traces_validated_against_impl"] += len(vs)
    return {r["id"]: r for r in recs}, vs


def _oblig(oid, L, R, events=True):
    o = {"id": oid, "left": relate.finals_of(L.get("final", [])), "right": relate.finals_of(R.get("final", []))}
    if events:
        o["levs"] = relate.digest_events(L)
        o["revs"] = relate.digest_events(R)
    return o


def _report(run, obls, verdicts, payloads, why):
    for o in obls:
        diff, fe = verdicts[o["id"]]
        if diff or fe:
            run.violation(o["id"], payloads[o["id"]], {"obligation": o["id"], "tasks_that_differ": diff[:8], "first_event_that_differs": fe, "why": why})


# ----------------------------------------------------------------------------------------------
TARGET_WEEKS = [datetime(2020, 12, 28), datetime(2026, 12, 28), datetime(2024, 2, 26), datetime(2027, 12, 27), datetime(2021, 1, 4),
                datetime(2032, 12, 27), datetime(2028, 2, 28)]


def week_offsets(start, rng, tier):
    base = [1, 2, 52, 53, 104, 157, 261]
    tgt = []
    monday = start - timedelta(days=start.weekday(), hours=start.hour, minutes=start.minute)
    for t in TARGET_WEEKS:
        k = (t - monday).days // 7
        if k > 0:
            tgt.append(k)
    if tier == "quick":
        return sorted(set(rng.sample(base, 2) + rng.sample(tgt, 2)))
    return sorted(set(base + tgt))


def check_c14(prop, tier, replay=None):
    run = Run("C14", tier)
    run.cov["rule"] = ("UTC projects of all generator profiles (limits, dags, ALAP, sub-slot, calendars without zones) rendered at week offsets "
                       "{1,2,52,53,104,157,261} and offsets that put the start into the weeks around 2020/21, 2026/27, 2027/28, 2032/33 and 29 Feb; "
                       "every rendering traced; obligation: events (in slots / seconds from project start) and final dates identical to offset 0; "
                       "non-trivial = distinct (project, offset) with at least one booking")
    rng = random.Random(run.seed * 7 + 14)
    n = 10 if tier == "quick" else 200
    bases = []
    for name in ("limits_profile", "core_dialect", "dags", "alap_profile", "chain_subslot", "year_end"):
        bases += getattr(gen, name)(rng, n)
    bases += gen.calendars(rng, n, zones=[None])
    jobs, pairs, payload = [], [], {}
    for j, (pid, p) in enumerate(bases):
        m = re.fullmatch(r"\+(\d+)w", p.length)
        if m and j % 2:
            p.length = "+%dd" % (7 * int(m.group(1)))       # the same horizon written in days: the declared end travels with the start
        bid = "C14-%s@0" % pid
        A = p.abstract()
        jobs.append({"id": bid, "text": p.render(), "scenarios": [0], "abstract": A})
        for k in week_offsets(p.start, rng, tier):
            q = gen.shifted(p, k)
            if _strip_names(q.abstract()) != _strip_names(A):
                raise MachineryError("generator: shifted project abstracts differently")
            vid = "C14-%s@%d" % (pid, k)
            jobs.append({"id": vid, "text": q.render(), "scenarios": [0], "abstract": q.abstract()})
            pairs.append((bid, vid, k))
            payload["%s~%s" % (bid, vid)] = {"base_text": p.render(), "variant_text": q.render(), "weeks": k}
    with scratch_build() as scr:
        recs, vs = _trace(scr, jobs, run)
        obls = []
        for bid, vid, k in pairs:
            L, R = recs[bid], recs[vid]
            run.evaluated()
            if "project" not in L or "project" not in R:
                run.violation("%s~%s" % (bid, vid), payload["%s~%s" % (bid, vid)], {"why": "one of the renderings was rejected / crashed",
                                                                                   "base": L.get("status"), "variant": R.get("status"), "err": R.get("error", "")[-300:]})
                continue
            if any(e["ev"] == "Book" for e in L["events"]):
                run.nontrivial(phash([L["project"]["tasks"], k]))
            obls.append(_oblig("%s~%s" % (bid, vid), L, R))
        verdicts, res = relate.decide(obls)
        run.add_tlc(res)
        _report(run, obls, verdicts, payload, "shifting every date by whole weeks changed the schedule")
        for o in obls[:3]:
            run.sample({"obligation": o["id"], "tasks": len(o["left"]), "events": len(o["levs"]), "verdict": verdicts[o["id"]]})
        flags = {}
        for v in vs.values():
            for t in v.tags():
                flags[t] = flags.get(t, 0) + 1
        run.notes["other_flags"] = flags
    return run.finish()


# ----------------------------------------------------------------------------------------------
def spellings(p, rng):
    """name -> (Proj variant or None, text)"""
    out = {}
    out["abs"] = p.render(dep_style="abs")
    r = gen.renamed(p, rng)
    out["renamed"] = r.render()
    out["renamed_abs"] = r.render(dep_style="abs")
    out["precedes"] = gen.to_precedes(p, rng).render()
    dup = gen.renamed(gen.to_precedes(p, rng), rng, reuse_across_parents=True)
    out["dupnames_precedes"] = dup.render()
    out["dupnames_abs"] = gen.renamed(p, rng, reuse_across_parents=True).render(dep_style="abs")
    out["shiftswap"] = gen.swap_shift_inline(p).render()
    out["comments"] = gen.with_comments(p.render(comments=True), rng)
    out["macros"] = gen.with_macros(p.render(), rng)
    out["macro_mentions"] = gen.with_macro_mentions(gen.with_macros(p.render(), rng), rng)
    # the other quoting style of the grammar: 'text' for "text" (names, time zones, formats)
    out["quotes"] = re.sub(r'"([^"\'\n]*)"', r"'\1'", p.render())
    out["all"] = gen.with_macros(gen.with_comments(gen.renamed(gen.swap_shift_inline(gen.to_precedes(p, rng)), rng).render(dep_style="abs"), rng), rng)
    return out


def check_c15(prop, tier, replay=None):
    run = Run("C15", tier)
    run.cov["rule"] = ("each generated project (dags, calendars, core, teams, limits) is rendered in 9 spellings: relative / absolute dependency "
                       "paths, consistent renaming with awkward identifiers (prefixes of each other, 'rev', case), 'precedes' on the other task, "
                       "shift reference <-> inline hours, #, // and /* */ comments + whitespace, macros with and without argument, comments that quote macro definitions / calls / an old project header, all combined; "
                       "obligation: identical event digest and final dates (positions = declaration order); non-trivial = distinct (project, spelling) with dependencies")
    rng = random.Random(run.seed * 7 + 15)
    n = 8 if tier == "quick" else 150
    bases = []
    for name in ("dags", "calendars", "core_dialect", "teams_alts", "limits_profile", "dup_leaf_ids", "group_hours"):
        bases += getattr(gen, name)(rng, n)
    jobs, pairs, payload = [], [], {}
    for pid, p in bases:
        bid = "C15-%s:rel" % pid
        base_text = p.render()
        jobs.append({"id": bid, "text": base_text, "scenarios": [0], "abstract": p.abstract()})
        for name, text in spellings(p, rng).items():
            vid = "C15-%s:%s" % (pid, name)
            jobs.append({"id": vid, "text": text, "scenarios": [0]})
            pairs.append((bid, vid))
            payload["%s~%s" % (bid, vid)] = {"base_text": base_text, "variant_text": text, "spelling": name}
    with scratch_build() as scr:
        recs, vs = _trace(scr, jobs, run)
        obls = []
        for bid, vid in pairs:
            L, R = recs[bid], recs[vid]
            run.evaluated()
            key = "%s~%s" % (bid, vid)
            if "project" not in L:
                continue
            if "project" not in R:
                run.violation(key, payload[key], {"why": "a spelling of an accepted project was rejected / crashed", "status": R.get("status"),
                                                  "error": R.get("error", "")[-300:]})
                continue
            if any(t["deps"] for t in L["project"]["tasks"]):
                run.nontrivial(phash([L["project"]["tasks"], vid.split(":")[1]]))
            obls.append(_oblig(key, L, R))
        verdicts, res = relate.decide(obls)
        run.add_tlc(res)
        _report(run, obls, verdicts, payload, "an equivalent spelling of the project gives a different schedule")
        for o in obls[:3]:
            run.sample({"obligation": o["id"], "verdict": verdicts[o["id"]]})
    return run.finish()


# ----------------------------------------------------------------------------------------------
def add_intruder(p, rng):
    q = gen.clone(p)
    res = [r for r in q.ordered(q.res) if not r.kids]
    r = rng.choice(res)
    G = q.G
    eff = rng.choice([G, 2 * G, 5 * G, 17 * G, G // 2 if (G // 2) % 60 == 0 else G, 40 * G])
    leaves = [t for t in q.ordered(q.tasks) if not t.kids]
    deps = []
    backward = q.alap or any(t.mode == "alap" or t.end is not None for t in q.tasks)
    # in backward scheduling a successor constrains its predecessors (they must end before it starts), so an
    # added task with dependencies is not "a task on which nothing depends" there: own edges only in ASAP projects
    if leaves and rng.random() < 0.4 and not backward:
        deps = [(rng.choice(leaves), False, rng.choice([0, G]))]
    st = None
    if rng.random() < 0.25 and not deps:
        st = q.start + timedelta(days=rng.randint(0, 6), hours=rng.choice([0, 9, 13]))
    if rng.random() < 0.15 and not deps:
        # a fixed period (own start and own end, no effort) that names a resource: still the lowest priority
        a = q.start + timedelta(days=rng.randint(0, 4), hours=rng.choice([9, 10, 13]))
        q.add_task("zz_intruder", effort=0, alloc=[r], prio=rng.choice([1, 2]), start=a, end=a + timedelta(hours=rng.choice([4, 30, 80])))
        return q
    q.add_task("zz_intruder", effort=eff, alloc=[r], prio=rng.choice([1, 2, 50, 100]), deps=deps, start=st)
    return q


def universe_intruders(run, scr, tier, payload):
    """Every project of the bounded universes MC_Tree and MC_Core (all of it in the thorough tier, every 6th project in the
    quick tier) with an added task of priority 1 declared last, on either resource, short or long: the dates of all other tasks
    must be those of the project without it.  Projects come from TLC (terminal states of Sched.tla); runs are untraced."""
    from harness import e2
    obls = []
    plan = [("MC_Tree", "MC_Tree.cfg" if tier == "quick" else "MC_TreeFull.cfg"), ("MC_Core", "MC_Core.cfg")]
    for module, cfg in plan:
        res, terms = e2.run_universe(module, cfg, timeout=6000)
        run.add_tlc(res)
        if res.invariant_violated or not terms:
            raise MachineryError("universe %s: %s" % (module, res.invariant_violated or "no terminal states"))
        stride = 6 if tier == "quick" else 1
        jobs = []
        for i in range(0, len(terms), stride):
            A = terms[i]["project"]
            base = gen.render_abstract(A)
            jobs.append({"id": "%s-%d" % (module, i), "text": base})
            for k, (rn, eff) in enumerate((("r", "1h"), ("q", "9h"))):
                intr = 'task zz_intruder "zz" {\n  effort %s\n  allocate %s\n  priority 1\n}\n' % (eff, rn)
                jobs.append({"id": "%s-%d+z%d" % (module, i, k), "text": base + intr})
        got = e2.run_final(scr, jobs)
        n = 0
        for i in range(0, len(terms), stride):
            L = got.get("%s-%d" % (module, i))
            for k in range(2):
                R = got.get("%s-%d+z%d" % (module, i, k))
                if not L or not R or L.get("status") != "ok" or R.get("status") != "ok":
                    raise MachineryError("universe project not scheduled by the implementation: %s-%d" % (module, i))
                key = "C09-%s-u%d+z%d" % (module, i, k)
                payload[key] = {"base_text": jobs[0]["text"] if False else gen.render_abstract(terms[i]["project"]), "intruder": k}
                fin = lambda fs: [{"sched": f["sched"], "start": f["start"] if f["sched"] else -1, "end": f["end"] if f["sched"] else -1} for f in fs]
                obls.append({"id": key, "left": fin(L["final"]), "right": fin(R["final"][:len(L["final"])])})
                run.evaluated()
                n += 1
        run.notes.setdefault("universes", []).append({"module": module, "projects": len(range(0, len(terms), stride)), "pairs": n, "states": res.distinct})
    return obls


def check_c09(prop, tier, replay=None):
    run = Run("C09", tier)
    run.cov["rule"] = ("base projects (core, sub-slot, limits, teams, calendars; all priorities >= 300) x an added task with priority <= 100 declared last, "
                       "any effort / resource / bound / own dependencies, nothing depends on it; pairs whose horizons differ are excluded as the statement allows; "
                       "obligation: dates of all common tasks identical, and in the trace the intruder is picked after every task that gets scheduled; "
                       "non-trivial = the intruder competes for a resource used by other tasks")
    rng = random.Random(run.seed * 7 + 9)
    n = 14 if tier == "quick" else 300
    bases = []
    for name in ("core_dialect", "chain_subslot", "limits_profile", "teams_alts", "calendars", "dags", "container_gate"):
        bases += getattr(gen, name)(rng, n * 3 if name == "container_gate" else n)     # the profile of the pick-order clause
    jobs, pairs, payload = [], [], {}
    for pid, p in bases:
        bid = "C09-%s" % pid
        jobs.append({"id": bid, "text": p.render(), "scenarios": [0], "abstract": p.abstract()})
        for k in range(2 if tier == "quick" else 4):
            q = add_intruder(p, rng)
            vid = "C09-%s+z%d" % (pid, k)
            jobs.append({"id": vid, "text": q.render(), "scenarios": [0], "abstract": q.abstract()})
            pairs.append((bid, vid))
            payload["%s~%s" % (bid, vid)] = {"base_text": p.render(), "variant_text": q.render()}
    with scratch_build() as scr:
        recs, vs = _trace(scr, jobs, run)
        obls = []
        for bid, vid in pairs:
            L, R = recs[bid], recs[vid]
            run.evaluated()
            key = "%s~%s" % (bid, vid)
            if "project" not in L or "project" not in R:
                continue
            if L["project"]["N"] != R["project"]["N"]:
                run.notes["excluded_horizon_differs"] = run.notes.get("excluded_horizon_differs", 0) + 1
                continue
            z = len(R["project"]["tasks"])
            zres = set(R["project"]["tasks"][z - 1]["alloc"])
            if any(set(t["alloc"]) & zres for t in L["project"]["tasks"]):
                run.nontrivial(phash(R["project"]["tasks"]))
            o = {"id": key, "left": relate.finals_of(L["final"]), "right": relate.finals_of(R["final"][: z - 1])}
            obls.append(o)
            # pick order: z after every task that gets scheduled
            picks = [e["task"] for e in R["events"] if e["ev"] == "Pick"]
            if z in picks:
                later = [t for t in picks[picks.index(z) + 1:] if R["final"][t - 1]["sched"]]
                if later:
                    run.violation(key + "-order", payload[key], {"why": "the strictly lowest-priority task was placed before higher-priority tasks", "picked_after_it": later[:5]})
        if not replay:
            obls += universe_intruders(run, scr, tier, payload)
        verdicts, res = relate.decide(obls)
        run.add_tlc(res)
        _report(run, obls, verdicts, payload, "adding a strictly lowest-priority task on which nothing depends changed other tasks")
        for o in obls[:3]:
            run.sample({"obligation": o["id"], "verdict": verdicts[o["id"]]})
    return run.finish()


# ----------------------------------------------------------------------------------------------
def scenario_chain(scenarios, sid, path=()):
    """ids from the root scenario down to sid"""
    for s, kids in scenarios:
        if s == sid:
            return list(path) + [s]
        r = scenario_chain(kids, sid, tuple(path) + (s,))
        if r:
            return r
    return None


def scenario_order(scenarios):
    out = []
    for s, kids in scenarios:
        out.append(s)
        out += scenario_order(kids)
    return out


def effective(p, sid):
    """Single-scenario project with the effective attributes of scenario sid (own overrides, else the nearest ancestor's)."""
    q = gen.clone(p)
    chain = scenario_chain(p.scenarios, sid)
    q.scenarios = None
    for t in q.tasks:
        eff = {}
        for s in chain:
            eff.update(t.scen.get(s, {}))
        t.scen = {}
        if "effort" in eff:
            t.effort = eff["effort"]
        if "start" in eff:
            t.start = eff["start"]
        if "end" in eff:
            t.end = eff["end"]
    return q


def make_scenarios(p, rng):
    q = gen.clone(p)
    shape = rng.choice([
        [("plan", [])],
        [("plan", [("s1", [])])],
        [("plan", [("s1", []), ("s2", [])])],
        [("plan", [("s1", [("s2", [])])])],
        [("plan", [("s1", [("s2", [])]), ("s3", [])])],
    ])
    q.scenarios = shape
    ids = scenario_order(shape)[1:]
    leaves = [t for t in q.ordered(q.tasks) if not t.kids and t.effort]
    if leaves and len(ids) >= 2 and rng.random() < 0.6:
        # the same attribute of one task overridden on several nesting levels, the lines in random order
        t = rng.choice(leaves)
        order = list(ids)
        rng.shuffle(order)
        for sid in order:
            if rng.random() < 0.8:
                t.scen.setdefault(sid, {})["effort"] = q.G * rng.randint(1, 30)
    for sid in ids:
        if rng.random() < 0.25:
            continue            # scenario without overrides
        for t in rng.sample(leaves, min(len(leaves), rng.randint(1, 2))):
            kind = rng.random()
            if kind < 0.7:
                t.scen.setdefault(sid, {})["effort"] = max(q.G, int(t.effort * rng.choice([0.5, 2, 3, 1])) // q.G * q.G)
            elif t.start is None:
                # a start of its own in this scenario (and in the scenarios below it): a pin, even if the task has predecessors
                t.scen.setdefault(sid, {})["start"] = q.start + timedelta(days=rng.randint(1, 4), hours=9)
    if len(ids) >= 1 and rng.random() < 0.35:
        # written for the ROOT scenario with its prefix: inherited by every scenario
        cand = [t for t in leaves if t.start is None and "start" not in t.scen.get(ids[0], {})]
        if cand:
            rng.choice(cand).scen.setdefault("plan", {})["start"] = q.start + timedelta(days=rng.randint(1, 4), hours=rng.choice([9, 13]))
    return q


ATTR_SCEN = ["plan", "s1", "s2", "s3"]
ATTR_TASKS = ["c", "c.d", "c.d.x", "c.x"]      # the two leaves share their local id (legal: different parents)


def attr_text(decls, reverse, attr="effort"):
    """The project of one element of the Attr universe; `reverse` writes the lines of every task in the opposite order.
    attr = "start": the values 2 / 4 / 6 are days after the project start."""
    lines = {n: [] for n in (1, 2, 3, 4)}
    for n, w, v in sorted(decls):
        val = "effort %dh" % v if attr == "effort" else "start 2025-01-%02d-09:00" % (6 + v)
        lines[n].append(val if w < 0 else "%s:%s" % (ATTR_SCEN[w], val))
    if reverse:
        for n in lines:
            lines[n].reverse()
    L = ['project p "P" 2025-01-06 +2m {', '  timezone "UTC"', '  scenario plan "plan" {', '    scenario s1 "s1" {', '      scenario s2 "s2"', "    }",
         '    scenario s3 "s3"', "  }", "}", 'resource r "r" {', "}", 'task c "c" {']
    L += ["  " + x for x in lines[1]]
    L += ['  task d "d" {'] + ["    " + x for x in lines[2]]
    base = ["allocate r"] + (["effort 3h"] if attr != "effort" else [])
    L += ['    task x "x" {'] + ["      " + x for x in base + lines[3]] + ["    }", "  }"]
    L += ['  task x "x again" {'] + ["    " + x for x in base + lines[4]] + ["  }", "}"]
    return "\n".join(L) + "\n"


def attr_universe(run, scr, tier):
    """Attr.tla: every set of at most 2 (thorough: 3) effort lines over a task tree x scenario tree, resolved by the spec and by the real model builder."""
    import subprocess
    from concurrent.futures import ThreadPoolExecutor
    from harness.tlc import run_tlc
    from harness.build import env_for, PY
    res = run_tlc("Attr", "AttrQuick.cfg" if tier == "quick" else "AttrFull.cfg", timeout=3000)
    if res.error or res.invariant_violated:
        raise MachineryError("Attr.tla violates its own invariant:\n" + res.out[-1500:])
    run.add_tlc(res)
    elems = []
    for m in re.finditer(r'<<"ATTR", "((?:[^"\\]|\\.)*)">>', res.out):
        elems.append(json.loads(m.group(1).encode().decode("unicode_escape")))
    if not elems:
        raise MachineryError("Attr.tla printed no universe")
    jobs = []
    for i, e in enumerate(elems):
        for rev in (False, True):
            if rev and len(e["decls"]) < 2:
                continue
            jobs.append({"id": "attr%05d%s" % (i, "r" if rev else ""), "text": attr_text(e["decls"], rev), "elem": i, "attr": "effort"})
            if len(e["decls"]) <= 2:
                # the same universe for 'start' (a date; the value a leaf inherits from its container is a bound, D-start)
                jobs.append({"id": "attrS%05d%s" % (i, "r" if rev else ""), "text": attr_text(e["decls"], rev, "start"), "elem": i, "attr": "start"})
    wd = tempfile.mkdtemp(prefix="spattr_")
    try:
        nproc = 14
        chunks = [jobs[k::nproc] for k in range(nproc)]

        def work(k):
            if not chunks[k]:
                return []
            inp, outp = os.path.join(wd, "in%d" % k), os.path.join(wd, "out%d" % k)
            with open(inp, "w") as f:
                for j in chunks[k]:
                    f.write(json.dumps({"id": j["id"], "text": j["text"], "attr": j["attr"]}) + "\n")
            r = subprocess.run([PY, "-m", "harness.attrrun", inp, outp], env=env_for(scr, hooks=False), cwd=wd,
                               stdout=subprocess.PIPE, stderr=subprocess.PIPE, text=True, timeout=3000)
            if r.returncode != 0:
                raise MachineryError("attrrun failed: " + r.stderr[-800:])
            return [json.loads(x) for x in open(outp)]
        with ThreadPoolExecutor(nproc) as ex:
            outs = [o for lst in ex.map(work, range(nproc)) for o in lst]
    finally:
        shutil.rmtree(wd, ignore_errors=True)
    by = {o["id"]: o for o in outs}
    bad = 0
    for j in jobs:
        o = by.get(j["id"])
        run.evaluated()
        e = elems[j["elem"]]
        if len(e["decls"]) >= 2:
            run.nontrivial(phash(["attr", j["id"]]))
        if o is None or "error" in o:
            raise MachineryError("Attr universe: project not accepted: %s\n%s" % (j["text"], (o or {}).get("error")))
        exp = {ATTR_TASKS[n]: [float(e["eff"][n][str(s)]) for s in range(4)] for n in range(4)}
        if j["attr"] == "start":
            exp = {k: [(x * 86400 + 9 * 3600 if x else 0.0) for x in row] for k, row in exp.items()}      # seconds after the project start
        got = {k: o["eff"].get(k) for k in ATTR_TASKS}
        if o["scen"] != ATTR_SCEN:
            raise MachineryError("Attr universe: scenario order %s" % o["scen"])
        if exp != got:
            bad += 1
            if bad <= 12:
                run.violation("C16-" + j["id"], {"id": "C16-" + j["id"], "text": j["text"], "attr_universe": True, "decls": e["decls"]},
                              {"why": "the effort a task has in a scenario differs from the resolution rule of Attr.tla (own line of the scenario, else of the nearest "
                                      "enclosing scenario, else the container's value in that scenario)", "lines": e["decls"], "expected_hours": exp, "got_hours": got})
    run.cov["traces_validated_against_impl"] += len(jobs)
    run.notes["attr_universe"] = {"elements": len(elems), "projects": len(jobs), "disagree": bad}


def check_c16(prop, tier, replay=None):
    run = Run("C16", tier)
    run.cov["rule"] = ("generated projects (core, limits, sub-slot, backward mode incl. one scenario whose effort override needs a far longer horizon) with 1-4 scenarios (flat, nested, siblings) and scenario-specific effort / start overrides; "
                       "every scenario's sub-trace is validated against the spec instance of its effective project, and its dates must equal those of the "
                       "single-scenario rendering of the effective project (own overrides, else the nearest ancestor scenario's); non-trivial = scenario with "
                       ">= 1 override or a limit in the project")
    rng = random.Random(run.seed * 7 + 16)
    n = 14 if tier == "quick" else 300
    bases = []
    for name in ("core_dialect", "limits_profile", "chain_subslot"):
        bases += getattr(gen, name)(rng, n)
    # backward mode: tasks anchored at the project end; one scenario may need a horizon far beyond it (a huge effort override)
    for name in ("alap_profile", "dags_alap", "alap_pack", "jit"):
        for pid, p in getattr(gen, name)(rng, max(4, n // 2)):
            big = [t for t in p.tasks if not t.kids and t.effort]
            if big and rng.random() < 0.7:
                p._c16_big = rng.choice(big)
            p._c16_alap = True
            bases.append((pid, p))
    jobs, pairs, payload = [], [], {}
    for pid, p in bases:
        q = make_scenarios(p, rng)
        ids = scenario_order(q.scenarios)
        if getattr(p, "_c16_alap", False) and len(ids) > 1 and rng.random() < 0.6:
            # a deadline that exists in ONE scenario only (written with its prefix): who is anchored, and whose predecessors are
            # pulled back, differs from scenario to scenario
            sinks = [t for t in q.tasks if not t.kids and t.effort and t.end is not None]
            if sinks:
                t = rng.choice(sinks)
                sid = rng.choice(ids[1:])
                t.scen.setdefault(sid, {})["end"] = t.end - timedelta(days=rng.randint(1, 5))
                if rng.random() < 0.5:
                    t.end = None          # ... and in the other scenarios the task has no deadline of its own at all
        big = getattr(p, "_c16_big", None)
        if big is not None and len(ids) > 1:
            # the LAST scenario needs hundreds of hours more: the slot tables grow for all scenarios, nobody else may move
            tb = next(t for t in q.tasks if q.full(t) == p.full(big))
            tb.scen.setdefault(ids[-1], {})["effort"] = tb.effort + 3600 * rng.choice([400, 900])
        mid = "C16-%s" % pid
        jobs.append({"id": mid, "text": q.render(), "scenarios": "all",
                     "abstracts": {str(i): effective(q, sid).abstract() for i, sid in enumerate(ids)}})
        for i, sid in enumerate(ids):
            e = effective(q, sid)
            sid_ = "C16-%s=%s" % (pid, sid)
            jobs.append({"id": sid_, "text": e.render(), "scenarios": [0], "abstract": e.abstract()})
            pairs.append((mid, i, sid_, bool(any(sid in t.scen for t in q.tasks)) or any(t.limits for t in q.tasks) or any(r.limits for r in q.res)))
            payload["%s#sc%d~%s" % (mid, i, sid_)] = {"multi_text": q.render(), "single_text": e.render(), "scenario": sid}
    with scratch_build() as scr:
        recs, vs = _trace(scr, jobs, run)
        obls = []
        for mid, i, sid_, nontriv in pairs:
            L = recs.get("%s#sc%d" % (mid, i)) or (recs.get(mid) if i == 0 else None)
            R = recs.get(sid_)
            key = "%s#sc%d~%s" % (mid, i, sid_)
            run.evaluated()
            if L is None or "project" not in L or R is None or "project" not in R:
                run.violation(key, payload[key], {"why": "scenario missing / run rejected", "multi": None if L is None else L.get("status"),
                                                  "single": None if R is None else R.get("status")})
                continue
            runaway = any(not f["sched"] for rec in (L, R) for f, t in zip(rec["final"], rec["project"]["tasks"]) if t["leaf"])
            if L["project"]["N"] != R["project"]["N"] and runaway:
                # all scenarios share one horizon (the longest needed); a task that does not fit books a different part of it
                run.notes["excluded_horizon_differs_and_task_does_not_fit"] = run.notes.get("excluded_horizon_differs_and_task_does_not_fit", 0) + 1
                continue
            if nontriv:
                run.nontrivial(phash([L["project"]["tasks"], i]))
            o = _oblig(key, R, L, events=False)
            for side in ("left", "right"):
                for f in o[side]:
                    if not f["sched"]:
                        f["start"] = f["end"] = -1      # dates of unscheduled tasks are C18's business
            obls.append(o)
            v = vs.get(L["id"])
            if v is not None and v.bad:
                run.notes.setdefault("other_flags", {})
                for t in v.tags():
                    run.notes["other_flags"][t] = run.notes["other_flags"].get(t, 0) + 1
        verdicts, res = relate.decide(obls)
        run.add_tlc(res)
        _report(run, obls, verdicts, payload, "a scenario is not scheduled like the single-scenario project with its effective attributes")
        if not replay:
            attr_universe(run, scr, tier)
        for o in obls[:3]:
            run.sample({"obligation": o["id"], "verdict": verdicts[o["id"]]})
    return run.finish()
