"""Writes /verif/MANIFEST.json from the registry (kept in one place so it stays valid)."""
import json
import os
import sys
sys.path.insert(0, os.path.dirname(os.path.dirname(os.path.abspath(__file__))))
from harness import manifest_data as M

checks = []
for pid in sorted(M.CLAIMS):
    c = M.CLAIMS[pid]
    checks.append({
        "property_id": pid,
        "quick_cmd": "./check %s --tier quick" % pid,
        "thorough_cmd": "./check %s --tier thorough" % pid,
        "evidence_file": "evidence/%s.json" % pid,
        "replay_cmd_template": "./check %s --replay {path}" % pid,
        "engine": c["engine"],
        "level_claimed": {"category": c.get("category", "model_checking"), "text": c["text"], "design_ref": c["design_ref"]},
        "level_note": c["note"],
        "technique": c["technique"],
    })
man = {
    "version": 1,
    "setup_cmd": "cd /verif && /venv/bin/python -m harness.setup",
    "hooks": {
        "guard": "SCRIPTPLAN_VERIF",
        "enable": "checks copy /repo's working tree to a scratch directory, rebuild the Cython extensions there and import it with SCRIPTPLAN_VERIF=1; scriptplan/__init__.py then calls scriptplan._verif_trace.install()",
        "baseline_off_cmd": "cd /repo && /venv/bin/python -m pytest -ra -q -p no:cacheprovider --timeout=900 --continue-on-collection-errors",
        "source_commits": M.HOOK_COMMITS,
        "add_only": True,
    },
    "engines": M.ENGINES,
    "checks": checks,
    "notes": M.NOTES,
    "not_applicable": M.NOT_APPLICABLE,
}
with open(os.path.join(os.path.dirname(os.path.dirname(os.path.abspath(__file__))), "MANIFEST.json"), "w") as f:
    json.dump(man, f, indent=1)
print("MANIFEST.json written: %d checks, %d not applicable" % (len(checks), len(M.NOT_APPLICABLE)))
