"""TLC driver: run a spec/config, collect statistics, parse PrintT tuples."""
import os
import re
import shutil
import subprocess
import tempfile
import time

SPEC_DIR = os.path.join(os.path.dirname(os.path.dirname(os.path.abspath(__file__))), "spec")
JAR = "/opt/veriftools/tla/tla2tools.jar"


class TlcResult:
    def __init__(self, out, rc, wall):
        self.out = out
        self.rc = rc
        self.wall = wall
        m = re.search(r"(\d+) states generated, (\d+) distinct states found", out)
        self.generated = int(m.group(1)) if m else 0
        self.distinct = int(m.group(2)) if m else 0
        self.error = bool(re.search(r"^Error:", out, re.M)) or "TLC threw an unexpected exception" in out
        self.invariant_violated = re.findall(r"Invariant (\S+) is violated", out)
        self.finished = "Model checking completed" in out or "Finished in" in out

    def tuples(self, tag):
        """All top-level PrintT tuples <<"tag", ...>> as raw strings (bracket matched)."""
        res = []
        for m in re.finditer(r'<<\s*"%s"' % re.escape(tag), self.out):
            i = m.start()
            depth = 0
            j = i
            while j < len(self.out):
                if self.out.startswith("<<", j):
                    depth += 1
                    j += 2
                    continue
                if self.out.startswith(">>", j):
                    depth -= 1
                    j += 2
                    if depth == 0:
                        break
                    continue
                if self.out[j] == '"':
                    j += 1
                    while j < len(self.out) and self.out[j] != '"':
                        j += 2 if self.out[j] == "\\" else 1
                    j += 1
                    continue
                j += 1
            res.append(self.out[i:j])
        return res


def run_tlc(module, cfg, env_extra=None, workers=16, timeout=1800, extra_args=(), cwd=None, heap="8g", deque=False):
    """Run TLC on spec/<module>.tla with spec/<cfg>; scratch metadir removed afterwards."""
    meta = tempfile.mkdtemp(prefix="tlcmeta_")
    env = dict(os.environ)
    if env_extra:
        env.update(env_extra)
    jopts = ["-Xmx" + heap, "-Xss64m", "-XX:+UseParallelGC", "-Djava.io.tmpdir=" + meta]      # TLC unpacks standard modules there
    if deque:
        jopts.append("-Dtlc2.tool.queue.IStateQueue=StateDeque")
    cmd = ["java"] + jopts + ["-cp", JAR + ":" + "/opt/veriftools/tla/CommunityModules-deps.jar", "tlc2.TLC",
                              "-workers", str(workers), "-metadir", meta, "-noGenerateSpecTE",
                              "-config", cfg] + list(extra_args) + [module]
    t0 = time.time()
    try:
        p = subprocess.run(cmd, cwd=cwd or SPEC_DIR, env=env, stdout=subprocess.PIPE, stderr=subprocess.STDOUT,
                           text=True, timeout=timeout)
        out, rc = p.stdout, p.returncode
    except subprocess.TimeoutExpired as ex:
        out = (ex.stdout or b"").decode() if isinstance(ex.stdout, bytes) else (ex.stdout or "")
        out += "\nTLC TIMEOUT\n"
        rc = 124
    finally:
        shutil.rmtree(meta, ignore_errors=True)
    return TlcResult(out, rc, time.time() - t0)
