"""MANIFEST.setup_cmd: offline self-check of the tool chain (nothing to build: TLA+ specs are
interpreted by TLC, Python harness is source).  Fails loudly if a tool is missing."""
import os
import shutil
import subprocess
import sys


def main():
    ok = True
    for tool in ("java", "rsync", "strace", "tlapm", "apalache-mc"):
        if shutil.which(tool) is None:
            print("missing tool:", tool)
            ok = False
    if not os.path.exists("/opt/veriftools/tla/tla2tools.jar"):
        print("missing tla2tools.jar")
        ok = False
    import tempfile
    jtmp = tempfile.mkdtemp(prefix="spsany_")      # SANY unpacks the standard modules into java.io.tmpdir: keep /tmp clean
    spec = os.path.join(os.path.dirname(os.path.dirname(os.path.abspath(__file__))), "spec")
    for mod in sorted(f for f in os.listdir(spec) if f.endswith(".tla")):
        r = subprocess.run(["java", "-Djava.io.tmpdir=" + jtmp, "-DTLA-Library=/opt/veriftools/tlapm/lib/tlapm/stdlib",     # TLAPS.tla for the proof module
                            "-cp", "/opt/veriftools/tla/tla2tools.jar:/opt/veriftools/tla/CommunityModules-deps.jar",
                            "tla2sany.SANY", mod], cwd=spec, stdout=subprocess.PIPE, stderr=subprocess.STDOUT, text=True)
        if "Fatal" in r.stdout or "*** Errors" in r.stdout or "Could not" in r.stdout:
            print("SANY rejects", mod)
            print(r.stdout[-800:])
            ok = False
    shutil.rmtree(jtmp, ignore_errors=True)
    os.makedirs(os.path.join(os.path.dirname(spec), "evidence"), exist_ok=True)
    print("setup ok" if ok else "setup FAILED")
    return 0 if ok else 1


if __name__ == "__main__":
    sys.exit(main())
