"""In-scratch runner for C18: parse + schedule a text, then observe every task report of the project:
in-memory JSON / CSV tables, generated files, and the schedule after each of three generations.

  python -m harness.reportrun JOBS.jsonl OUT.jsonl
"""
import contextlib
import csv
import io
import json
import os
import shutil
import sys
import tempfile
import traceback
from datetime import datetime, timedelta

from harness.build import block_cython_if_requested

block_cython_if_requested()
from scriptplan.parser.tjp_parser import ProjectFileParser  # noqa: E402
from scriptplan.report import ReportContext  # noqa: E402

NULL = -1


def secs(p, dt):
    return int(round((dt - p["start"]).total_seconds())) if dt else NULL


def decode(col, cell, fmt, p, tix):
    if col == "id":
        return tix.get(cell, 0)
    if col in ("start", "end"):
        if cell == "":
            return NULL
        try:
            return secs(p, datetime.strptime(cell, fmt))
        except ValueError:
            return -2
    if col == "effort":
        return int(round(float(cell) * 100)) if cell not in ("", "-") else 0
    if col == "priority":
        return int(cell) if cell not in ("", "-") else 0
    if col == "cost":
        return int(round(float(cell) * 100)) if cell not in ("", "-") else 0
    return -3


def through_format(p, dt, fmt):
    """The instant as it survives the (possibly lossy) time format."""
    if not dt:
        return NULL
    return secs(p, datetime.strptime(dt.strftime(fmt), fmt))


def effective_format(rep, p):
    fmt = rep.get("timeFormat")
    if fmt == "%Y-%m-%d":
        fmt = p.attributes.get("timeformat") or fmt
    return fmt


def finals(p, sc):
    return [{"sched": bool(t.get("scheduled", sc)), "start": secs(p, t.get("start", sc)), "end": secs(p, t.get("end", sc))} for t in p.tasks]


def expected_cost_cents(p, t, sc, rates=None):
    """rate x booked time; the rate of a resource is the one the GENERATOR gave it (own, else the nearest group's, else
    the global one) when the job says so -- the implementation's view of the rate is not trusted."""
    total = 0.0
    for r in p.resources:
        rs = r.data[sc] if r.data else None
        rate = (rates.get(r.fullId, 0.0) if rates is not None else r.get("rate", sc)) or 0.0
        if rs is None or not rate:
            continue
        for lst in rs.slotTaskUsage.values():
            for tt, s in lst:
                if tt is t:
                    total += s / 3600.0 * rate
    return int(round(total * 100))


def observe(p, rep, outdir, job_id, scen_id=None, rates=None, fmt_by_gen=None, hide="", task_flags=None):
    # the scenario the report is about: the one its definition names (as written by the generator), else the first
    sc = 0
    if scen_id is not None:
        sc = [s.fullId.split(".")[-1] for s in p.scenarios].index(scen_id)
    cols = []
    for c in rep.get("columns") or []:
        cols.append(c.get("id") if isinstance(c, dict) else (c.id if hasattr(c, "id") else str(c)))
    fmt = fmt_by_gen or effective_format(rep, p)       # generated reports: the format the generator says is in force
    tix = {t.fullId: i + 1 for i, t in enumerate(p.tasks)}
    tasks = []
    for t in p.tasks:
        st, en = t.get("start", sc), t.get("end", sc)
        sched = bool(t.get("scheduled", sc))
        tasks.append({"leaf": bool(t.leaf()), "sched": sched,
                      "start": through_format(p, st, fmt) if sched else NULL, "end": through_format(p, en, fmt) if sched else NULL,
                      "start0": secs(p, st), "end0": secs(p, en),
                      "effort": int(round(float("%.2f" % float(t.get("effort", sc) or 0)) * 100)),
                      "prio": int(t.get("priority", sc) or 0), "costCents": expected_cost_cents(p, t, sc, rates)})
    o = {"id": "%s/%s" % (job_id, rep.fullId), "def": {"columns": cols, "leafOnly": bool(rep.get("leafTasksOnly")), "fmt": fmt, "hide": hide or ""}, "tasks": tasks}
    for t, rec in zip(p.tasks, tasks):
        rec["flags"] = list((task_flags or {}).get(t.fullId, []))
    ctx = ReportContext(p, rep)
    ctx.push()
    try:
        rep.generate_intermediate_format()
        j = rep.to_json()
        c = rep.to_csv()
    finally:
        ctx.pop()
    rendered_ok = True
    jrows = []
    for rec in j["data"]:
        cells = list(rec.values())
        jrows.append([decode(col, cell, fmt, p, tix) for col, cell in zip(cols, cells)])
        tid = tix.get(cells[cols.index("id")], 0) if "id" in cols else 0
        for col, cell in zip(cols, cells):
            if col in ("start", "end") and tid:
                t = list(p.tasks)[tid - 1]
                dt = t.get(col, sc)
                want = dt.strftime(fmt) if (dt and t.get("scheduled", sc)) else ""
                if cell != want:
                    rendered_ok = False
    o["json"] = jrows
    o["csv"] = [[decode(col, cell, fmt, p, tix) for col, cell in zip(cols, row)] for row in c[1:]]
    o["csv_header"] = c[0] if c else []
    o["rendered_ok"] = rendered_ok
    # files
    p.outputDir = outdir
    after = []
    fj = fc = None
    for g in range(3):
        ctx = ReportContext(p, rep)
        ctx.push()
        try:
            rep.generate()
        finally:
            ctx.pop()
        after.append(finals(p, sc))
    base = rep.name or rep.id
    pj = os.path.join(outdir, base + ".json")
    pc = os.path.join(outdir, base + ".csv")
    if os.path.exists(pj):
        d = json.load(open(pj))
        fj = [[decode(col, cell, fmt, p, tix) for col, cell in zip(cols, list(rec.values()))] for rec in d["data"]]
    if os.path.exists(pc):
        rows = list(csv.reader(open(pc, newline="")))
        fc = [[decode(col, cell, fmt, p, tix) for col, cell in zip(cols, row)] for row in rows[1:]]
    o["file_json"] = fj if fj is not None else o["json"]
    o["file_csv"] = fc if fc is not None else o["csv"]
    o["files"] = [os.path.exists(pj), os.path.exists(pc)]
    o["after"] = after
    return o


def main(jobs_path, out_path):
    parser = ProjectFileParser()
    with open(jobs_path) as f, open(out_path, "w") as out:
        for line in f:
            if not line.strip():
                continue
            job = json.loads(line)
            d = tempfile.mkdtemp(prefix="sprep_")
            try:
                with contextlib.redirect_stderr(io.StringIO()), contextlib.redirect_stdout(io.StringIO()):
                    p = parser.parse(job["text"])
                    for rep in p.reports:
                        if type(rep).__name__ and getattr(rep, "type_spec", None) is not None and rep.type_spec.value == "taskreport":
                            out.write(json.dumps(observe(p, rep, d, job["id"], (job.get("report_scenario") or {}).get(rep.fullId), job.get("rates"),
                                                              (job.get("report_fmt") or {}).get(rep.fullId),
                                                              (job.get("report_hide") or {}).get(rep.fullId, ""), job.get("task_flags"))) + "\n")
                    # ... and one report defined through the API AFTER the project was scheduled, with a time format of its own:
                    # the history of a report object (file or API, before or after scheduling) must not decide how it renders
                    if job.get("api_report", True) and len(p.tasks):
                        from scriptplan.report.report import Report, ReportFormat, ReportType
                        api = Report(p, "api_late", "api_late", None)
                        api.type_spec = ReportType.TASK_REPORT
                        api["columns"] = [{"id": c, "options": {}} for c in ("id", "start", "end")]
                        api["formats"] = [ReportFormat.JSON, ReportFormat.CSV]
                        api["timeFormat"] = "%d.%m.%Y %H:%M"
                        out.write(json.dumps(observe(p, api, d, job["id"], None, job.get("rates"), "%d.%m.%Y %H:%M", "", job.get("task_flags"))) + "\n")
            except Exception:  # noqa: BLE001
                out.write(json.dumps({"id": job["id"], "error": traceback.format_exc()[-1200:]}) + "\n")
            finally:
                shutil.rmtree(d, ignore_errors=True)


if __name__ == "__main__":
    main(sys.argv[1], sys.argv[2])
