"""Shared pieces of all checks: evidence writer, known findings, violation reporting."""
import hashlib
import json
import os
import sys
import time

VERIF = os.path.dirname(os.path.dirname(os.path.abspath(__file__)))
EVID = os.environ.get("VERIF_EVID") or os.path.join(VERIF, "evidence")   # seed tests write their evidence elsewhere
REPLAYS = os.path.join(EVID, "replays")


def seed_from_env(default=20260925):
    try:
        return int(os.environ.get("VERIF_SEED", default))
    except ValueError:
        return default


def phash(obj):
    return hashlib.sha256(json.dumps(obj, sort_keys=True).encode()).hexdigest()[:16]


class Run:
    """Book-keeping of one check run; writes the evidence file and prints VIOLATION lines."""

    def __init__(self, prop, tier, level="model_checking"):
        self.prop = prop
        self.tier = tier
        self.level = level
        self.seed = seed_from_env()
        self.t0 = time.time()
        self.cov = {"states": 0, "transitions": 0, "traces_validated_against_impl": 0, "samples": [],
                    "evaluations": 0, "distinct_nontrivial": 0, "rule": "", "exhaustive": False}
        self.assumptions = []
        self.violations = []
        self.known_lines = []
        self.notes = {}
        self._nontrivial = set()

    # -- counting -------------------------------------------------------------------------
    def add_tlc(self, res):
        if res is None:
            return
        self.cov["states"] += res.distinct
        self.cov["transitions"] += res.generated

    def evaluated(self, n=1):
        self.cov["evaluations"] += n

    def nontrivial(self, key):
        self._nontrivial.add(key)

    def sample(self, s):
        if len(self.cov["samples"]) < 6:
            self.cov["samples"].append(s)

    # -- outcomes -------------------------------------------------------------------------
    def violation(self, name, payload, summary):
        os.makedirs(os.path.join(REPLAYS, self.prop), exist_ok=True)
        path = os.path.join(REPLAYS, self.prop, "%s.json" % name.replace("/", "_"))
        with open(path, "w") as f:
            json.dump(payload, f, indent=1)
        self.violations.append({"replay": path, "summary": summary})
        print("VIOLATION property=%s replay=%s" % (self.prop, path))
        print("  " + str(summary)[:600])
        sys.stdout.flush()

    def known(self, text):
        line = "KNOWN-FINDING: property=%s %s" % (self.prop, text)
        self.known_lines.append(line)
        print(line)
        sys.stdout.flush()

    def finish(self):
        self.cov["distinct_nontrivial"] = len(self._nontrivial)
        if self.cov["states"] == 0:
            # keep the schema's model_checking branch honest: fall back to the generic keys
            self.cov.pop("states")
            self.cov.pop("transitions")
        ev = {"property_id": self.prop, "tier": self.tier, "seed": self.seed, "level": self.level,
              "coverage": dict(self.cov, **self.notes), "assumptions": self.assumptions,
              "wall_s": round(time.time() - self.t0, 2), "violations": len(self.violations),
              "known_findings_reported": self.known_lines,
              "violation_details": self.violations[:20]}
        os.makedirs(EVID, exist_ok=True)
        with open(os.path.join(EVID, "%s.json" % self.prop), "w") as f:
            json.dump(ev, f, indent=1, default=str)
        print("%s %s: %d evaluations, %d distinct non-trivial, %d traces validated, %d TLC states, %d violation(s), %.1fs" % (
            self.prop, self.tier, self.cov["evaluations"], self.cov["distinct_nontrivial"],
            self.cov["traces_validated_against_impl"], self.cov.get("states", 0), len(self.violations),
            time.time() - self.t0))
        return 1 if self.violations else 0


def load_known():
    p = os.path.join(VERIF, "known_findings.json")
    if not os.path.exists(p):
        return []
    with open(p) as f:
        return json.load(f)["findings"]
