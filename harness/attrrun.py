"""Runner for the Attr universe (C16): parses each project and reports the effort every task has in every scenario.
usage: python -m harness.attrrun <jobs.ndjson> <out.ndjson>"""
import json
import sys
import traceback


def main():
    from scriptplan.parser.tjp_parser import ProjectFileParser
    parser = ProjectFileParser()
    with open(sys.argv[1]) as f, open(sys.argv[2], "w") as out:
        for line in f:
            job = json.loads(line)
            try:
                attr = job.get("attr", "effort")
                # effort: as resolved after scheduling; start: as resolved by the model builder (scheduling writes computed dates there)
                p = parser.parse(job["text"], schedule=(attr == "effort"))
                nsc = p.scenarioCount()
                eff = {}
                for t in p.tasks:
                    row = []
                    for sc in range(nsc):
                        v = t.get(attr, sc) or 0
                        if attr == "start":
                            v = (v - p["start"]).total_seconds() if v else 0
                        row.append(float(v))
                    eff[t.fullId] = row
                out.write(json.dumps({"id": job["id"], "eff": eff, "scen": [s.fullId.split(".")[-1] for s in p.scenarios]}) + "\n")
            except BaseException:
                out.write(json.dumps({"id": job["id"], "error": traceback.format_exc()[-800:]}) + "\n")


if __name__ == "__main__":
    main()
