"""C17 (slot/time algebra, run scanning) and C13 (compiled vs pure paths) decided by spec/Algebra.tla."""
import json
import os
import random
import subprocess
import tempfile

from harness import e1, gen, tlaval
from harness.build import scratch_build, env_for, PY, MachineryError
from harness.common import Run, phash
from harness.tlc import run_tlc

C17_OPS = {"size", "psize", "i2d", "d2i", "d2iclamp", "d2ifar", "i2dfar", "pd2i", "pi2d", "runs"}


def run_grid(scr, tier, seed, pure):
    fd, path = tempfile.mkstemp(prefix="spcalls_", suffix=".ndjson")
    os.close(fd)
    try:
        r = subprocess.run([PY, "-m", "harness.algrun", path, tier, str(seed)], env=env_for(scr, hooks=False, pure=pure),
                           stdout=subprocess.PIPE, stderr=subprocess.PIPE, text=True, timeout=3000,
                           cwd=os.path.dirname(path))
        if r.returncode != 0:
            raise MachineryError("algrun failed: " + r.stderr[-1500:])
        if pure:
            # blocked imports: algrun must have fallen back
            pass
        meta = json.loads(r.stdout.strip().splitlines()[-1])
        batches = {}
        for line in open(path):
            b = json.loads(line)
            batches[b["id"]] = b
        res = run_tlc("Algebra", "Algebra.cfg", env_extra={"CALLS_FILE": path}, timeout=3000)
    finally:
        os.unlink(path)
    if res.error:
        raise MachineryError("TLC failed on Algebra:\n" + res.out[-2500:])
    out = []
    for raw in res.tuples("ALGEBRA"):
        _, bid, n, badpy, badcy, differ = tlaval.parse(raw)
        out.append((batches[bid], set(badpy), set(badcy), set(differ)))
    if len(out) != len(batches):
        raise MachineryError("Algebra: %d verdicts for %d batches" % (len(out), len(batches)))
    return meta, out, res


def prove_laws(run):
    """Unbounded part of C17: TLAPS proves the conversion laws for every resolution, index and instant (AlgebraProofs.tla).
    The operators proved about must be, word for word, the operators of Algebra.tla that the calls are validated against."""
    import re
    import shutil
    from harness.tlc import SPEC_DIR

    def defs(path):
        out = {}
        for line in open(path):
            m = re.match(r"^(FloorDiv|CeilDiv|Size|PSize|TimeOf|IndexOf|InTable)\(([^)]*)\)\s*==\s*(.*?)\s*(\\\*.*)?$", line)
            if m:
                out[m.group(1)] = re.sub(r"\s+", " ", m.group(3)).strip()
        return out
    a, b = defs(os.path.join(SPEC_DIR, "Algebra.tla")), defs(os.path.join(SPEC_DIR, "AlgebraProofs.tla"))
    if len(b) != 7 or any(a.get(k) != v for k, v in b.items()):
        raise MachineryError("AlgebraProofs.tla no longer proves about the operators of Algebra.tla: %s vs %s" % (a, b))
    wd = tempfile.mkdtemp(prefix="sptlaps_")
    try:
        shutil.copy(os.path.join(SPEC_DIR, "AlgebraProofs.tla"), wd)
        # (the proof manager's parser unpacks the standard modules into java.io.tmpdir: keep that inside the scratch directory)
        env = dict(os.environ, TMPDIR=wd, JAVA_TOOL_OPTIONS=("-Djava.io.tmpdir=%s " % wd + os.environ.get("JAVA_TOOL_OPTIONS", "")).strip())
        # the back-end provers run under time-outs of their own: on a loaded machine an obligation may time out, so a failed
        # attempt is repeated with the time-outs stretched (and fewer threads) before it counts
        m = None
        for extra in ([], ["--stretch", "4", "--threads", "4"], ["--stretch", "10", "--threads", "2"]):
            r = subprocess.run(["timeout", "1500", "tlapm", "--cleanfp"] + extra + ["AlgebraProofs.tla"], cwd=wd, env=env, stdout=subprocess.PIPE, stderr=subprocess.STDOUT, text=True)
            m = re.search(r"All (\d+) obligations proved", r.stdout)
            if m:
                break
    finally:
        shutil.rmtree(wd, ignore_errors=True)
    if not m:
        raise MachineryError("TLAPS no longer proves the conversion laws (a defect of the specification, not a verdict about the code):\n" + r.stdout[-1500:])
    run.notes["tlaps"] = {"module": "AlgebraProofs.tla", "obligations_proved": int(m.group(1)),
                          "theorems": ["RoundTrip", "Monotone", "FloorLaw", "Covers"], "for": "every resolution g > 0, every index, every instant (unbounded)"}


def check_c17(prop, tier, replay=None):
    run = Run("C17", tier)
    if not replay:
        prove_laws(run)
    run.cov["rule"] = ("every index of bounded windows x resolutions {1,5,15,30,60 min} x start offsets for idxToDate/dateToIdx/size "
                       "(Scoreboard and Project, compiled and pure), every Boolean pattern up to 7 (quick) / 9 (thorough) slots x every window x "
                       "min length 1..3 for collectIntervals; non-trivial = distinct call (op, arguments); the laws themselves are ASSUMEd in Algebra.tla")
    run.assumptions = ["datetime arithmetic of CPython", "laws checked by TLC on the bounded grid of Algebra.cfg (5 resolutions, spans <= 7300 s, patterns <= 7)"]
    with scratch_build() as scr:
        for pure in (False, True):
            meta, out, res = run_grid(scr, tier, run.seed, pure)
            if not pure and not meta["native"]:
                raise MachineryError("compiled extensions not in use in the native run")
            if pure and meta["native"]:
                raise MachineryError("import block did not disable the compiled extensions")
            run.add_tlc(res)
            for B, badpy, badcy, differ in out:
                for i, c in enumerate(B["calls"], 1):
                    if c["op"] not in C17_OPS:
                        continue
                    run.evaluated()
                    run.nontrivial(phash({k: v for k, v in c.items() if k not in ("py", "cy")}))
                    for impl, bad in (("py", badpy), ("cy", badcy)):
                        if i in bad and len(run.violations) < 25:
                            run.violation("%s-%s-%d-%s" % (B["id"], impl, i, "pure" if pure else "native"), {"call": c, "impl": impl},
                                          {"call": c, "impl": impl, "why": "result differs from the Algebra operator"})
                if len(run.cov["samples"]) < 4:
                    run.sample({"batch": B["id"], "first_calls": B["calls"][:3]})
            run.cov["traces_validated_against_impl"] += len(out)
        run.cov["exhaustive"] = True
    return run.finish()


def check_c13(prop, tier, replay=None):
    run = Run("C13", tier)
    run.cov["rule"] = ("(a) every call of the C17 grid plus WorkingHours.onShift for every sampled minute of the week x 8 (quick) / 16 (thorough) interval "
                       "tables and get_daily_hours, executed by both implementations; (b) generated projects + fixtures traced with the freshly built "
                       "extensions and with the imports blocked, event streams compared; non-trivial = distinct call / project with bookings")
    run.assumptions = ["extensions rebuilt from the .pyx sources of /repo's working tree on every run (generated .c files are deleted first)"]
    with scratch_build() as scr:
        meta, out, res = run_grid(scr, tier, run.seed, False)
        if not meta["native"]:
            raise MachineryError("compiled extensions not in use")
        run.add_tlc(res)
        for B, badpy, badcy, differ in out:
            for i, c in enumerate(B["calls"], 1):
                run.evaluated()
                run.nontrivial(phash({k: v for k, v in c.items() if k not in ("py", "cy")}))
                if i in differ and len(run.violations) < 25:
                    run.violation("%s-%d" % (B["id"], i), {"call": c}, {"call": c, "why": "compiled and pure implementation return different values"})
                if (i in badpy or i in badcy) and i not in differ:
                    run.notes["both_differ_from_spec"] = run.notes.get("both_differ_from_spec", 0) + 1
        run.cov["traces_validated_against_impl"] += len(out)
        # (b) end to end
        rng = random.Random(run.seed + 13)
        n = 12 if tier == "quick" else 150
        jobs = []
        for name in ("core_dialect", "calendars", "chain_subslot", "limits_profile", "alap_profile"):
            for pid, p in getattr(gen, name)(rng, n):
                jobs.append({"id": "C13-" + pid, "text": p.render(), "scenarios": [0], "abstract": p.abstract()})
        from harness.props_e1 import fixture_jobs
        jobs += fixture_jobs(tier)
        nat = e1.run_impl(scr, jobs, pure=False, nproc=14)
        pur = e1.run_impl(scr, jobs, pure=True, nproc=14)
        if any(not r.get("pure") for r in pur if "project" in r):
            raise MachineryError("pure run imported a compiled extension")
        pm = {r["id"]: r for r in pur}
        for r in nat:
            run.evaluated()
            q = pm.get(r["id"])
            if "project" in r and any(e["ev"] == "Book" for e in r["events"]):
                run.nontrivial(phash(r["project"]))
            same = q is not None and r.get("status") == q.get("status") and r.get("events") == q.get("events") and r.get("final") == q.get("final") \
                and r.get("ledger") == q.get("ledger")
            if not same:
                diff = None
                if q is not None:
                    for k, (a, b) in enumerate(zip(r.get("events", []), q.get("events", []))):
                        if a != b:
                            diff = {"event": k + 1, "native": a, "pure": b}
                            break
                job = next(j for j in jobs if j["id"] == r["id"].split("#sc")[0])
                run.violation(r["id"], {"id": job["id"], "text": job["text"]},
                              {"trace": r["id"], "why": "whole project schedules differently with / without the extensions", "first_difference": diff})
        # the pure traces are valid behaviours of the spec too
        vs, res2 = e1.validate([r for r in pur if "project" in r][:60 if tier == "quick" else 400])
        run.add_tlc(res2)
        run.cov["traces_validated_against_impl"] += len(vs)
        run.sample({"projects_compared_native_vs_pure": len(nat)})
    return run.finish()
