"""Property id -> check function(prop, tier, replay) -> exit code."""
from harness import props_e1

CHECKS = {}
for _p in ("C01", "C02", "C03", "C04", "C05", "C06", "C07", "C08", "C10"):
    CHECKS[_p] = props_e1.check

from harness import props_alg
CHECKS["C17"] = props_alg.check_c17
CHECKS["C13"] = props_alg.check_c13

from harness import props_rel
CHECKS["C09"] = props_rel.check_c09
CHECKS["C14"] = props_rel.check_c14
CHECKS["C15"] = props_rel.check_c15
CHECKS["C16"] = props_rel.check_c16

from harness import props_c11
CHECKS["C11"] = props_c11.check

from harness import props_c12
CHECKS["C12"] = props_c12.check

from harness import props_cli
CHECKS["C19"] = props_cli.check_c19
CHECKS["C20"] = props_cli.check_c20

from harness import props_c18
CHECKS["C18"] = props_c18.check
