"""Abstract-project builder, renderer (abstract -> .tjp text) and generator profiles.

The abstract side is primary: a profile builds a `Proj` (tasks, resources, calendar) and both
the text given to the real code and the task/resource part of the abstract project given to
TLC are derived from it; the parser is therefore not trusted for generated projects (the
runner reports every field in which its parsed model disagrees with the generator).
"""
import random
from datetime import datetime, timedelta
from fractions import Fraction

DAYS = ["mon", "tue", "wed", "thu", "fri", "sat", "sun"]


def fmt_date(dt):
    if dt.hour == 0 and dt.minute == 0:
        return dt.strftime("%Y-%m-%d")
    return dt.strftime("%Y-%m-%d-%H:%M")


def fmt_dur(sec):
    """Duration text read identically by the parser's various duration readers (min / h only)."""
    if sec % 3600 == 0:
        return "%dh" % (sec // 3600)
    assert sec % 60 == 0, sec
    return "%dmin" % (sec // 60)


def fmt_eff(fr):
    fr = Fraction(fr)
    s = "%.2f" % float(fr)
    assert Fraction(s) == fr, (s, fr)
    return s.rstrip("0").rstrip(".") if "." in s else s


class Res:
    def __init__(self, name, parent=None, eff="1", hours=None, shift=None, tz=None, leaves=(), limits=(),
                 vacations=(), bookings=()):
        self.name = name
        self.parent = parent
        self.eff = Fraction(eff)
        self.hours = hours      # None (default calendar) or {dayIdx: [(fromMin, toMin), ...]}
        self.shift = shift      # name of a Shift carrying the hours instead
        self.tz = tz
        self.leaves = list(leaves)        # [(startDt, endDt)] ranges as written "leaves annual a - b"
        self.vacations = list(vacations)  # resource-level "vacation a - b"
        self.bookings = list(bookings)    # [(startDt, seconds)]
        self.limits = list(limits)        # [(kind 'd'|'w', seconds)]
        self.kids = []


class Task:
    def __init__(self, name, parent=None, effort=0, alloc=(), alt=(), prio=None, deps=(), start=None, end=None,
                 flags=(), limits=(), milestone=False, mode=None, precedes=(), scen=None):
        self.name = name
        self.parent = parent
        self.effort = effort          # seconds
        self.alloc = list(alloc)
        self.alt = list(alt)
        self.prio = prio
        self.deps = list(deps)        # [(targetTask, onstart, gapSec)]
        self.precedes = list(precedes)  # [(targetTask)] rendered on this task, abstracted as dep on the target
        self.start = start
        self.end = end
        self.flags = list(flags)
        self.limits = list(limits)    # [(kind, seconds, resName|None)]
        self.milestone = milestone
        self.mode = mode              # None | 'asap' | 'alap'
        self.scen = scen or {}        # scenario id -> {'effort': sec, 'start': dt, 'end': dt}
        self.kids = []


class Proj:
    def __init__(self, start=datetime(2024, 1, 1), length="+4w", G=3600, alap=False, vac=(), gleaves=(),
                 pid="p", scenarios=None):
        self.start = start
        self.length = length
        self.G = G
        self.alap = alap
        self.vac = list(vac)          # [(startDt, endDt|None)]
        self.gleaves = list(gleaves)  # [(startDt, endDt|None)]
        self.pid = pid
        self.res = []
        self.tasks = []
        self.shifts = {}              # name -> hours dict
        self.scenarios = scenarios    # None or nested list [("plan",[("delayed",[])])]
        self.extra = ""              # extra text appended (reports ...)

    # -- construction -------------------------------------------------------------------
    def add_res(self, *a, **kw):
        r = Res(*a, **kw)
        if r.parent is not None:
            r.parent.kids.append(r)
        self.res.append(r)
        return r

    def add_task(self, *a, **kw):
        t = Task(*a, **kw)
        if t.parent is not None:
            t.parent.kids.append(t)
        self.tasks.append(t)
        return t

    def add_shift(self, name, hours):
        self.shifts[name] = hours
        return name

    # -- names --------------------------------------------------------------------------
    def full(self, x):
        parts = []
        while x is not None:
            parts.append(x.name)
            x = x.parent
        return ".".join(reversed(parts))

    def ordered(self, items):
        """Declaration (pre-order) sequence: the order in which the parser creates the nodes."""
        out = []

        def walk(n):
            out.append(n)
            for k in n.kids:
                walk(k)
        for n in items:
            if n.parent is None:
                walk(n)
        return out

    def relref(self, frm, to):
        """Shortest '!' reference from task frm to task to, else absolute path."""
        # ancestors chain of frm: parent, grandparent...
        base = frm.parent
        level = 1
        while True:
            # `to` reachable below base?
            path = []
            x = to
            while x is not None and x is not base:
                path.append(x.name)
                x = x.parent
            if x is base:
                return "!" * level + ".".join(reversed(path))
            if base is None:
                break
            base = base.parent
            level += 1
        return self.full(to)

    # -- rendering ----------------------------------------------------------------------
    def hours_lines(self, hours, ind):
        out = []
        for d in sorted(hours):
            ivs = hours[d]
            if ivs:
                out.append("%sworkinghours %s %s" % (ind, DAYS[d], ", ".join(
                    "%02d:%02d - %02d:%02d" % (a // 60, a % 60, b // 60, b % 60) for a, b in ivs)))
        return out

    def render(self, dep_style="rel", comments=False):
        L = []
        L.append('project %s "P" %s %s {' % (self.pid, fmt_date(self.start), self.length))
        L.append('  timezone "UTC"')
        L.append('  timeformat "%Y-%m-%d %H:%M"')
        if self.G != 3600:
            L.append("  timingresolution %s" % fmt_dur(self.G))
        if self.alap:
            L.append("  scheduling alap")

        def scen(lst, ind):
            for sid, kids in lst:
                if kids:
                    L.append('%sscenario %s "%s" {' % (ind, sid, sid))
                    scen(kids, ind + "  ")
                    L.append("%s}" % ind)
                else:
                    L.append('%sscenario %s "%s"' % (ind, sid, sid))
        if self.scenarios:
            scen(self.scenarios, "  ")
        L.append("}")
        for a, b in self.vac:
            L.append('vacation "v" %s%s' % (fmt_date(a), " - " + fmt_date(b) if b else ""))
        for a, b in self.gleaves:
            L.append('leaves holiday "h" %s%s' % (fmt_date(a), " - " + fmt_date(b) if b else ""))
        for name, hours in self.shifts.items():
            L.append('shift %s "%s" {' % (name, name))
            L.extend(self.hours_lines(hours, "  "))
            L.append("}")

        def rres(r, ind):
            L.append('%sresource %s "%s" {' % (ind, r.name, r.name))
            i2 = ind + "  "
            if r.eff != 1:
                L.append("%sefficiency %s" % (i2, fmt_eff(r.eff)))
            if r.tz:
                L.append('%stimezone "%s"' % (i2, r.tz))
            if r.shift:
                L.append("%sworkinghours %s" % (i2, r.shift))
            elif r.hours is not None:
                L.extend(self.hours_lines(r.hours, i2))
            for a, b in r.leaves:
                L.append("%sleaves annual %s%s" % (i2, fmt_date(a), " - " + fmt_date(b) if b else ""))
            for a, b in r.vacations:
                L.append("%svacation %s%s" % (i2, fmt_date(a), " - " + fmt_date(b) if b else ""))
            for a, sec in r.bookings:
                L.append('%sbooking "b" %s +%s' % (i2, fmt_date(a), fmt_dur(sec)))
            if r.limits:
                L.append("%slimits { %s }" % (i2, " ".join(
                    "%s %s" % ("dailymax" if k == "d" else "weeklymax", fmt_limit(v)) for k, v in r.limits)))
            for k in r.kids:
                rres(k, i2)
            L.append("%s}" % ind)
        for r in self.res:
            if r.parent is None:
                rres(r, "")

        def rtask(t, ind):
            if comments:
                L.append("%s# task %s" % (ind, t.name))
            L.append('%stask %s "%s" {' % (ind, t.name, t.name))
            i2 = ind + "  "
            if t.effort:
                L.append("%seffort %s" % (i2, fmt_dur(t.effort)))
            for sid, ov in t.scen.items():
                if "effort" in ov:
                    L.append("%s%s:effort %s" % (i2, sid, fmt_dur(ov["effort"])))
                if "start" in ov:
                    L.append("%s%s:start %s" % (i2, sid, fmt_date(ov["start"])))
                if "end" in ov:
                    L.append("%s%s:end %s" % (i2, sid, fmt_date(ov["end"])))
            if t.milestone:
                L.append("%smilestone" % i2)
            if t.alloc:
                s = "%sallocate %s" % (i2, ", ".join(r.name for r in t.alloc))
                if t.alt:
                    s += " { alternative %s }" % ", ".join(r.name for r in t.alt)
                L.append(s)
            if t.prio is not None:
                L.append("%spriority %d" % (i2, t.prio))
            if t.mode:
                L.append("%sscheduling %s" % (i2, t.mode))
            if t.start is not None:
                L.append("%sstart %s" % (i2, fmt_date(t.start)))
            if t.end is not None:
                L.append("%send %s" % (i2, fmt_date(t.end)))
            if t.flags:
                L.append("%sflags %s" % (i2, ", ".join(t.flags)))
            for d in t.deps:
                to, onstart, gap = d[0], d[1], d[2]
                ref = self.relref(t, to) if dep_style == "rel" else self.full(to)
                opts = []
                if gap:
                    opts.append("gapduration %s" % fmt_dur(gap))
                if onstart:
                    opts.append("onstart")
                L.append("%sdepends %s%s" % (i2, ref, " { %s }" % " ".join(opts) if opts else ""))
            for to in t.precedes:
                ref = self.relref(t, to) if dep_style == "rel" else self.full(to)
                L.append("%sprecedes %s" % (i2, ref))
            if t.limits:
                L.append("%slimits { %s }" % (i2, " ".join(
                    "%s %s%s" % ("dailymax" if k == "d" else "weeklymax", fmt_limit(v),
                                 " { resources %s }" % rn.name if rn else "") for k, v, rn in t.limits)))
            for k in t.kids:
                rtask(k, i2)
            L.append("%s}" % ind)
        for t in self.tasks:
            if t.parent is None:
                rtask(t, "")
        if self.extra:
            L.append(self.extra)
        return "\n".join(L) + "\n"

    # -- abstract (task / resource part; frame fields are filled in by the runner) --------
    def secs(self, dt):
        return int((dt - self.start).total_seconds())

    def abstract(self, scenario=None):
        tasks = self.ordered(self.tasks)
        res = self.ordered(self.res)
        tix = {id(t): i + 1 for i, t in enumerate(tasks)}
        rix = {id(r): i + 1 for i, r in enumerate(res)}
        prec = {}
        for t in tasks:
            for to in t.precedes:
                prec.setdefault(id(to), []).append(t)
        T = []
        for i, t in enumerate(tasks):
            ov = t.scen.get(scenario, {}) if scenario else {}
            prio = t.prio
            x = t
            while prio is None and x.parent is not None:
                x = x.parent
                prio = x.prio
            inh = None
            x = t.parent
            while x is not None and inh is None:
                inh = x.start
                x = x.parent
            deps = [{"p": tix[id(d[0])], "onstart": bool(d[1]), "gap": int(d[2]), "clone": False, "maxgap": False,
                     "gaplen": False} for d in t.deps]
            for src in prec.get(id(t), []):
                e = {"p": tix[id(src)], "onstart": False, "gap": 0, "clone": False, "maxgap": False, "gaplen": False}
                if not any(d["p"] == e["p"] for d in deps):
                    deps.append(e)
            own_start = ov.get("start", t.start)
            own_end = ov.get("end", t.end)
            fwd = (t.mode != "alap") if t.mode else True
            T.append({"name": self.full(t), "parent": tix[id(t.parent)] if t.parent else 0, "leaf": not t.kids,
                      "seq": i + 1, "prio": prio if prio is not None else 500, "effort": int(ov.get("effort", t.effort)),
                      "effortExact": True, "milestone": bool(t.milestone), "other": False, "deps": deps,
                      "alloc": [rix[id(r)] for r in t.alloc], "alt": [rix[id(r)] for r in t.alt],
                      "pin": self.secs(own_start) if own_start is not None else -1,
                      "inhStart": self.secs(inh) if (inh is not None and own_start is None) else -1,
                      "pinEnd": self.secs(own_end) if own_end is not None else -1,
                      "fwd": fwd, "expl": t.mode is not None, "flags": list(t.flags),
                      "limits": [{"kind": k, "val": int(Fraction(v, self.G)), "valSec": int(v),
                                  "res": rix[id(rn)] if rn else 0, "periods": 0} for k, v, rn in t.limits]})
        R = []
        for r in res:
            hours = r.hours
            if r.shift:
                hours = self.shifts[r.shift]
            if hours is not None:
                H = [[[a, b] for a, b in hours.get(d, [])] for d in range(7)]
                cal = "hours"
            else:
                H = [[] for _ in range(7)]
                cal = "default"
            lv = []
            for a, b in r.leaves + r.vacations:
                # reference semantics: a leave written as one date covers that day; a range a - b covers [a, b)
                lv.append([self.secs(a), self.secs(b) if b else self.secs(a) + 86400])
            for a, sec in r.bookings:
                lv.append([self.secs(a), self.secs(a) + sec])
            R.append({"name": self.full(r), "parent": rix[id(r.parent)] if r.parent else 0, "leaf": not r.kids,
                      "effN": r.eff.numerator, "effD": r.eff.denominator, "cal": cal, "hours": H, "leaves": lv,
                      "tzname": r.tz or "",
                      "limits": [{"kind": k, "val": int(Fraction(v, self.G)), "valSec": int(v), "res": 0, "periods": 0}
                                 for k, v in r.limits]})
        vac = [[self.secs(a), self.secs(b) if b else self.secs(a) + 86400] for a, b in self.vac]
        gl = [[self.secs(a), self.secs(b) if b else self.secs(a) + 86400] for a, b in self.gleaves]
        return {"tasks": T, "res": R, "vac": vac, "gleaves": gl, "alap": self.alap}


def fmt_limit(sec):
    fr = Fraction(sec, 3600)
    if fr.denominator == 1:
        return "%dh" % fr.numerator
    s = "%.2f" % float(fr)
    assert Fraction(s) == fr, (sec, s)
    return s.rstrip("0") + "h"


# ======================================================================================
# Profiles.  Each returns a list of (id, Proj).  `rng` is a random.Random seeded by the check.
# ======================================================================================
def std_hours(a=540, b=1020, days=range(5)):
    return {d: [(a, b)] for d in days}


def chain_subslot(rng, n):
    """C01/C03/C06: sub-slot efforts, chains ending mid-slot, several tasks meeting in one slot."""
    out = []
    for i in range(n):
        G = rng.choice([3600, 3600, 1800, 900])
        p = Proj(start=datetime(2024, 1, 1) + timedelta(days=7 * rng.randrange(0, 3)), G=G)
        nres = rng.choice([1, 1, 2])
        effs = ["1", "1", "2", "0.5", "1.5", "0.8", "1.25"]
        rs = [p.add_res("r%d" % k, eff=rng.choice(effs) if rng.random() < 0.4 else "1") for k in range(nres)]
        nt = rng.randint(2, 6)
        ts = []
        for k in range(nt):
            unit = rng.choice([u for u in (G, G // 2, G // 4, G // 3, 300, 60 * 7, 60 * 11) if u % 60 == 0 and u > 0])
            eff_secs = unit * rng.randint(1, 9)
            r = rng.choice(rs)
            # effort such that ticks stay integral: effort*effD must be integer -> always (ints)
            deps = []
            if ts and rng.random() < 0.6:
                d = rng.choice(ts)
                gap = rng.choice([g for g in (G // 2, G, 2 * G, 900, 1800, 420) if g % 60 == 0]) if rng.random() < 0.4 else 0
                deps.append((d, False, gap))
            prio = rng.choice([None, None, 400, 600, 700])
            ts.append(p.add_task("t%d" % k, effort=eff_secs, alloc=[r], deps=deps, prio=prio))
        out.append(("sub%04d" % i, p))
    return out
