"""Abstract-project builder, renderer (abstract -> .tjp text) and generator profiles.

The abstract side is primary: a profile builds a `Proj` (tasks, resources, calendar) and both
the text given to the real code and the task/resource part of the abstract project given to
TLC are derived from it; the parser is therefore not trusted for generated projects (the
runner reports every field in which its parsed model disagrees with the generator).
"""
import random
from datetime import datetime, timedelta
from fractions import Fraction

DAYS = ["mon", "tue", "wed", "thu", "fri", "sat", "sun"]


def fmt_date(dt):
    if dt.hour == 0 and dt.minute == 0:
        return dt.strftime("%Y-%m-%d")
    return dt.strftime("%Y-%m-%d-%H:%M")


def fmt_dur(sec):
    """Duration text read identically by the parser's various duration readers (min / h only)."""
    if sec % 3600 == 0:
        return "%dh" % (sec // 3600)
    assert sec % 60 == 0, sec
    return "%dmin" % (sec // 60)


def fmt_gap(sec):
    """A gap DURATION is calendar time: whole days and weeks are written as such (1d = 24 h, 1w = 7 d)."""
    if sec and sec % (7 * 86400) == 0:
        return "%dw" % (sec // (7 * 86400))
    if sec and sec % 86400 == 0:
        return "%dd" % (sec // 86400)
    return fmt_dur(sec)


def fmt_eff(fr):
    fr = Fraction(fr)
    s = "%.2f" % float(fr)
    assert Fraction(s) == fr, (s, fr)
    return s.rstrip("0").rstrip(".") if "." in s else s


class Res:
    def __init__(self, name, parent=None, eff="1", hours=None, shift=None, tz=None, leaves=(), limits=(),
                 vacations=(), bookings=()):
        self.name = name
        self.parent = parent
        self.eff = Fraction(eff)
        self.hours = hours      # None (default calendar) or {dayIdx: [(fromMin, toMin), ...]}
        self.shift = shift      # name of a Shift carrying the hours instead
        self.tz = tz
        self.leaves = list(leaves)        # [(startDt, endDt)] ranges as written "leaves annual a - b"
        self.vacations = list(vacations)  # resource-level "vacation a - b"
        self.bookings = list(bookings)    # [(startDt, seconds)]
        self.limits = list(limits)        # [(kind 'd'|'w', seconds)]
        self.rate = None
        self.eff_text = None    # efficiency literal to render instead of eff (e.g. "0.0": the implementation treats 0 as 1, D19)
        self.kids = []


class Task:
    def __init__(self, name, parent=None, effort=0, alloc=(), alt=(), prio=None, deps=(), start=None, end=None,
                 flags=(), limits=(), milestone=False, mode=None, precedes=(), scen=None):
        self.name = name
        self.parent = parent
        self.effort = effort          # seconds
        self.alloc = list(alloc)
        self.alt = list(alt)
        self.prio = prio
        self.deps = list(deps)        # [(targetTask, onstart, gapSec)]
        self.precedes = list(precedes)  # [(targetTask)] rendered on this task, abstracted as dep on the target
        self.start = start
        self.end = end
        self.flags = list(flags)
        self.limits = list(limits)    # [(kind, seconds, resName|None)]
        self.milestone = milestone
        self.mode = mode              # None | 'asap' | 'alap'
        self.scen = scen or {}        # scenario id -> {'effort': sec, 'start': dt, 'end': dt}
        self.kids = []


class Proj:
    def __init__(self, start=datetime(2024, 1, 1), length="+4w", G=3600, alap=False, vac=(), gleaves=(),
                 pid="p", scenarios=None):
        self.start = start
        self.length = length
        self.G = G
        self.alap = alap
        self.vac = list(vac)          # [(startDt, endDt|None)]
        self.gleaves = list(gleaves)  # [(startDt, endDt|None)]
        self.pid = pid
        self.res = []
        self.tasks = []
        self.shifts = {}              # name -> hours dict
        self.shift_leaves = {}        # name -> [(startDt, endDt|None)]: leaves declared inside the shift
        self.ptz = "UTC"              # time zone of the project header: the zone every date of the text and of the reports is in
        self.default_hours = None     # hours dict written in the project header: the default of everybody without hours of their own
        self.global_rate = None       # 'rate' at global scope: the default of every resource that states none
        self.flag_decl = []           # flag names declared at global scope ('flags red, blue')
        self.scenarios = scenarios    # None or nested list [("plan",[("delayed",[])])]
        self.extra = ""              # extra text appended (reports ...)

    # -- construction -------------------------------------------------------------------
    def add_res(self, *a, **kw):
        r = Res(*a, **kw)
        if r.parent is not None:
            r.parent.kids.append(r)
        self.res.append(r)
        return r

    def add_task(self, *a, **kw):
        t = Task(*a, **kw)
        if t.parent is not None:
            t.parent.kids.append(t)
        self.tasks.append(t)
        return t

    def add_shift(self, name, hours, leaves=()):
        self.shifts[name] = hours
        if leaves:
            self.shift_leaves[name] = list(leaves)
        return name

    # -- names --------------------------------------------------------------------------
    def full(self, x):
        parts = []
        while x is not None:
            parts.append(x.name)
            x = x.parent
        return ".".join(reversed(parts))

    def ordered(self, items):
        """Declaration (pre-order) sequence: the order in which the parser creates the nodes."""
        out = []

        def walk(n):
            out.append(n)
            for k in n.kids:
                walk(k)
        for n in items:
            if n.parent is None:
                walk(n)
        return out

    def relref(self, frm, to):
        """Shortest '!' reference from task frm to task to, else absolute path."""
        # ancestors chain of frm: parent, grandparent...
        base = frm.parent
        level = 1
        while True:
            # `to` reachable below base?
            path = []
            x = to
            while x is not None and x is not base:
                path.append(x.name)
                x = x.parent
            if x is base:
                return "!" * level + ".".join(reversed(path))
            if base is None:
                break
            base = base.parent
            level += 1
        return self.full(to)

    # -- rendering ----------------------------------------------------------------------
    def hours_lines(self, hours, ind):
        out = []
        for d in sorted(hours):
            ivs = hours[d]
            if ivs:
                out.append("%sworkinghours %s %s" % (ind, DAYS[d], ", ".join(
                    "%02d:%02d - %02d:%02d" % (a // 60, a % 60, b // 60, b % 60) for a, b in ivs)))
        return out

    def render(self, dep_style="rel", comments=False):
        L = []
        L.append('project %s "P" %s %s {' % (self.pid, fmt_date(self.start), self.length))
        L.append('  timezone "%s"' % self.ptz)
        L.append('  timeformat "%Y-%m-%d %H:%M"')
        if self.G != 3600:
            L.append("  timingresolution %s" % fmt_dur(self.G))
        if self.alap:
            L.append("  scheduling alap")
        if self.default_hours is not None:
            L.extend(self.hours_lines(self.default_hours, "  "))

        def scen(lst, ind):
            for sid, kids in lst:
                if kids:
                    L.append('%sscenario %s "%s" {' % (ind, sid, sid))
                    scen(kids, ind + "  ")
                    L.append("%s}" % ind)
                else:
                    L.append('%sscenario %s "%s"' % (ind, sid, sid))
        if self.scenarios:
            scen(self.scenarios, "  ")
        L.append("}")
        if self.flag_decl:
            L.append("flags %s" % ", ".join(self.flag_decl))
        if self.global_rate is not None:
            L.append("rate %s" % self.global_rate)
        for a, b in self.vac:
            L.append('vacation "v" %s%s' % (fmt_date(a), " - " + fmt_date(b) if b else ""))
        for a, b in self.gleaves:
            L.append('leaves holiday "h" %s%s' % (fmt_date(a), " - " + fmt_date(b) if b else ""))
        for name, hours in self.shifts.items():
            L.append('shift %s "%s" {' % (name, name))
            L.extend(self.hours_lines(hours, "  "))
            for a, b in self.shift_leaves.get(name, []):
                L.append("  leaves annual %s%s" % (fmt_date(a), " - " + fmt_date(b) if b else ""))
            L.append("}")

        def rres(r, ind):
            L.append('%sresource %s "%s" {' % (ind, r.name, r.name))
            i2 = ind + "  "
            if r.eff_text is not None:
                L.append("%sefficiency %s" % (i2, r.eff_text))
            elif r.eff != 1:
                L.append("%sefficiency %s" % (i2, fmt_eff(r.eff)))
            if r.rate is not None:
                L.append("%srate %s" % (i2, r.rate))
            if r.tz:
                L.append('%stimezone "%s"' % (i2, r.tz))
            if r.shift:
                L.append("%sworkinghours %s" % (i2, r.shift))
            elif r.hours is not None:
                L.extend(self.hours_lines(r.hours, i2))
            for a, b in r.leaves:
                L.append("%sleaves annual %s%s" % (i2, fmt_date(a), " - " + fmt_date(b) if b else ""))
            for a, b in r.vacations:
                L.append("%svacation %s%s" % (i2, fmt_date(a), " - " + fmt_date(b) if b else ""))
            for a, sec in r.bookings:
                # calendar durations: weeks and days are written as such when they are whole
                dur = "%dw" % (sec // 604800) if sec % 604800 == 0 else ("%dd" % (sec // 86400) if sec % 86400 == 0 else fmt_dur(sec))
                L.append('%sbooking "b" %s +%s' % (i2, fmt_date(a), dur))
            if r.limits:
                L.append("%slimits { %s }" % (i2, " ".join(
                    "%s %s" % ("dailymax" if k == "d" else "weeklymax", fmt_limit(v)) for k, v in r.limits)))
            for k in r.kids:
                rres(k, i2)
            L.append("%s}" % ind)
        for r in self.res:
            if r.parent is None:
                rres(r, "")

        def rtask(t, ind):
            if comments:
                L.append("%s# task %s" % (ind, t.name))
            L.append('%stask %s "%s" {' % (ind, t.name, t.name))
            i2 = ind + "  "
            if t.effort:
                L.append("%seffort %s" % (i2, fmt_dur(t.effort)))
            for sid, ov in t.scen.items():
                if "effort" in ov:
                    L.append("%s%s:effort %s" % (i2, sid, fmt_dur(ov["effort"])))
                if "start" in ov:
                    L.append("%s%s:start %s" % (i2, sid, fmt_date(ov["start"])))
                if "end" in ov:
                    L.append("%s%s:end %s" % (i2, sid, fmt_date(ov["end"])))
            if t.milestone:
                L.append("%smilestone" % i2)
            if t.alloc:
                s = "%sallocate %s" % (i2, ", ".join(r.name for r in t.alloc))
                if t.alt:
                    s += " { alternative %s }" % ", ".join(r.name for r in t.alt)
                L.append(s)
            if t.prio is not None:
                L.append("%spriority %d" % (i2, t.prio))
            if t.mode:
                L.append("%sscheduling %s" % (i2, t.mode))
            if t.start is not None:
                L.append("%sstart %s" % (i2, fmt_date(t.start)))
            if t.end is not None:
                L.append("%send %s" % (i2, fmt_date(t.end)))
            if t.flags:
                L.append("%sflags %s" % (i2, ", ".join(t.flags)))
            for d in t.deps:
                to, onstart, gap = d[0], d[1], d[2]
                ref = self.relref(t, to) if dep_style == "rel" else self.full(to)
                opts = []
                if gap:
                    opts.append("gapduration %s" % fmt_gap(gap))
                if len(d) > 3 and d[3]:
                    opts.append("gaplength %s" % fmt_dur(d[3]))
                if len(d) > 4 and d[4]:
                    opts.append("maxgapduration %s" % fmt_gap(d[4]))
                if onstart:
                    opts.append("onstart")
                L.append("%sdepends %s%s" % (i2, ref, " { %s }" % " ".join(opts) if opts else ""))
            for pr in t.precedes:
                to, pgap = pr if isinstance(pr, tuple) else (pr, 0)
                ref = self.relref(t, to) if dep_style == "rel" else self.full(to)
                L.append("%sprecedes %s%s" % (i2, ref, " { gapduration %s }" % fmt_gap(pgap) if pgap else ""))
            if t.limits:
                L.append("%slimits { %s }" % (i2, " ".join(
                    "%s %s%s" % ("dailymax" if k == "d" else "weeklymax", fmt_limit(v),
                                 " { resources %s }" % rn.name if rn else "") for k, v, rn in t.limits)))
            for k in t.kids:
                rtask(k, i2)
            L.append("%s}" % ind)
        for t in self.tasks:
            if t.parent is None:
                rtask(t, "")
        if self.extra:
            L.append(self.extra)
        return "\n".join(L) + "\n"

    # -- abstract (task / resource part; frame fields are filled in by the runner) --------
    def secs(self, dt):
        return int((dt - self.start).total_seconds())

    def abstract(self, scenario=None):
        tasks = self.ordered(self.tasks)
        res = self.ordered(self.res)
        tix = {id(t): i + 1 for i, t in enumerate(tasks)}
        rix = {id(r): i + 1 for i, r in enumerate(res)}
        prec = {}
        for t in tasks:
            for pr in t.precedes:
                to, pgap = pr if isinstance(pr, tuple) else (pr, 0)
                prec.setdefault(id(to), []).append((t, pgap))
        T = []
        for i, t in enumerate(tasks):
            ov = t.scen.get(scenario, {}) if scenario else {}
            prio = t.prio
            x = t
            while prio is None and x.parent is not None:
                x = x.parent
                prio = x.prio
            inh = None
            x = t.parent
            while x is not None and inh is None:
                inh = x.start
                x = x.parent
            deps = [{"p": tix[id(d[0])], "onstart": bool(d[1]), "gap": int(d[2]), "clone": False, "maxgap": bool(len(d) > 4 and d[4]),
                     "gaplen": bool(len(d) > 3 and d[3]), "glen": int(-(-d[3] // self.G)) if (len(d) > 3 and d[3]) else 0} for d in t.deps]      # slots of working time that cover the gap length
            for src, pgap in prec.get(id(t), []):
                # `a precedes t` is `t depends a` (finish-to-start, with the gap written there): an edge of its own unless the
                # very same edge is already written on t
                e = {"p": tix[id(src)], "onstart": False, "gap": int(pgap), "clone": False, "maxgap": False, "gaplen": False, "glen": 0}
                if e not in deps:
                    deps.append(e)
            own_start = ov.get("start", t.start)
            own_end = ov.get("end", t.end)
            x = t
            while x is not None and not x.mode:
                x = x.parent                   # `scheduling` is inherited from the nearest container that states one
            fwd = (x.mode != "alap") if x is not None else True
            # effort and allocation written on a container are inherited by the tasks below that have none of their own;
            # a task flagged `milestone` has no work whatever it inherits
            eff_i, alloc_i, alt_i = int(ov.get("effort", t.effort)), t.alloc, t.alt
            x = t.parent
            while x is not None:
                if not eff_i and x.effort and "effort" not in ov:
                    eff_i = int(x.effort)
                if not alloc_i and x.alloc:
                    alloc_i, alt_i = x.alloc, x.alt
                x = x.parent
            if t.milestone or t.kids:
                eff_i = 0 if t.milestone else eff_i
            T.append({"name": self.full(t), "parent": tix[id(t.parent)] if t.parent else 0, "leaf": not t.kids,
                      "seq": i + 1, "prio": prio if prio is not None else 500, "effort": eff_i,
                      "effortExact": True, "milestone": bool(t.milestone), "other": False, "deps": deps,
                      "alloc": [rix[id(r)] for r in alloc_i], "alt": [rix[id(r)] for r in alt_i],
                      "pin": self.secs(own_start) if own_start is not None else -1,
                      "inhStart": self.secs(inh) if (inh is not None and own_start is None) else -1,
                      "pinEnd": self.secs(own_end) if own_end is not None else -1,
                      "fwd": fwd, "expl": t.mode is not None, "flags": list(t.flags),
                      "limits": [{"kind": k, "val": int(Fraction(v, self.G)), "valSec": int(v),
                                  "res": rix[id(rn)] if rn else 0, "periods": 0} for k, v, rn in t.limits]})
        R = []
        for r in res:
            # own hours / shift, else those of the nearest enclosing group that declares some, else the project default
            x = r
            hours = None
            via_shift = None
            while x is not None and hours is None:
                hours = self.shifts[x.shift] if x.shift else x.hours
                via_shift = x.shift if x.shift else None
                x = x.parent
            if hours is None and self.default_hours is not None:
                hours = self.default_hours        # reference semantics: hours written in the project header are the project default
            y = r
            while y is not None and not y.tz:
                y = y.parent
            if hours is None and y is not None:
                hours = std_hours(540, 1020)      # ... and the built-in default (Mon-Fri 09:00-17:00) is worked at the resource's local time (C02)
            if hours is not None:
                H = [[[a, b] for a, b in hours.get(d, [])] for d in range(7)]
                cal = "hours"
            else:
                H = [[] for _ in range(7)]
                cal = "default"
            lv = []
            # reference semantics: leaves, vacations and blocking bookings of every enclosing group apply to the people below it
            # (TaskJuggler list attributes are inherited and extended, not replaced, by a declaration of one's own)
            x = r
            while x is not None:
                for a, b in x.leaves + x.vacations:
                    # a leave written as one date covers that day; a range a - b covers [a, b)
                    lv.append([self.secs(a), self.secs(b) if b else self.secs(a) + 86400])
                for a, sec in x.bookings:
                    lv.append([self.secs(a), self.secs(a) + sec])
                x = x.parent
            # ... and so do the leaves declared inside the shift the resource takes its working time from
            for a, b in self.shift_leaves.get(via_shift, []) if via_shift else []:
                lv.append([self.secs(a), self.secs(b) if b else self.secs(a) + 86400])
            # reference semantics: efficiency and time zone are inherited from the nearest enclosing group that declares one
            x, eff, tzn = r, Fraction(1), ""
            while x is not None and eff == 1:
                eff = x.eff
                x = x.parent
            x = r
            while x is not None and not tzn:
                tzn = x.tz or ""
                x = x.parent
            R.append({"name": self.full(r), "parent": rix[id(r.parent)] if r.parent else 0, "leaf": not r.kids,
                      "effN": eff.numerator, "effD": eff.denominator, "cal": cal, "hours": H, "leaves": lv,
                      "tzname": tzn,
                      "limits": [{"kind": k, "val": int(Fraction(v, self.G)), "valSec": int(v), "res": 0, "periods": 0}
                                 for k, v in r.limits]})
        vac = [[self.secs(a), self.secs(b) if b else self.secs(a) + 86400] for a, b in self.vac]
        gl = [[self.secs(a), self.secs(b) if b else self.secs(a) + 86400] for a, b in self.gleaves]
        return {"tasks": T, "res": R, "vac": vac, "gleaves": gl, "alap": self.alap, "ptz": self.ptz}


def fmt_limit(sec):
    if sec % 60 == 0 and (sec // 1800) % 3 == 0 and sec < 86400 * 3:
        return "%dmin" % (sec // 60)        # the same limit written in minutes (every third half-hour value)
    fr = Fraction(sec, 3600)
    if fr.denominator == 1:
        return "%dh" % fr.numerator
    s = "%.2f" % float(fr)
    assert Fraction(s) == fr, (sec, s)
    return s.rstrip("0") + "h"


# ======================================================================================
# Profiles.  Each returns a list of (id, Proj).  `rng` is a random.Random seeded by the check.
# ======================================================================================
def std_hours(a=540, b=1020, days=range(5)):
    return {d: [(a, b)] for d in days}


def chain_subslot(rng, n):
    """C01/C03/C06: sub-slot efforts, chains ending mid-slot, several tasks meeting in one slot."""
    out = []
    for i in range(n):
        G = rng.choice([3600, 3600, 1800, 900])
        p = Proj(start=datetime(2024, 1, 1) + timedelta(days=7 * rng.randrange(0, 3)), G=G)
        nres = rng.choice([1, 1, 2])
        effs = ["1", "1", "2", "0.5", "1.5", "0.8", "1.25", "0.7", "0.9", "1.1", "0.3"]      # 0.7 etc.: slot residues are fractions of a second
        rs = [p.add_res("r%d" % k, eff=rng.choice(effs) if rng.random() < 0.4 else "1") for k in range(nres)]
        nt = rng.randint(2, 6)
        ts = []
        for k in range(nt):
            unit = rng.choice([u for u in (G, G // 2, G // 4, G // 3, 300, 60 * 7, 60 * 11) if u % 60 == 0 and u > 0])
            eff_secs = unit * rng.randint(1, 9)
            r = rng.choice(rs)
            # effort such that ticks stay integral: effort*effD must be integer -> always (ints)
            deps = []
            if ts and rng.random() < 0.6:
                d = rng.choice(ts)
                gap = rng.choice([g for g in (G // 2, G, 2 * G, 900, 1800, 420) if g % 60 == 0]) if rng.random() < 0.4 else 0
                deps.append((d, False, gap))
            prio = rng.choice([None, None, 400, 600, 700])
            st = None
            if not deps and rng.random() < 0.15:
                # the user's own start, at an instant inside a slot
                st = p.start + timedelta(days=rng.randint(0, 3), hours=rng.choice([9, 10, 13, 14]),
                                         seconds=rng.choice([G // 2, G // 4, G // 3, 600, 0]) // 60 * 60)
            ts.append(p.add_task("t%d" % k, effort=eff_secs, alloc=[r], deps=deps, prio=prio, start=st))
        if rng.random() < 0.35:
            # a team (equal efficiencies) that starts at a bound inside a slot; the predecessor was worked by somebody else
            mates = [p.add_res("m%d" % k) for k in range(rng.choice([2, 2, 3]))]
            lone = p.add_res("lone")
            half = next(u for u in (G // 2, G // 3, 600, 420) if u % 60 == 0)
            pre = p.add_task("lead", effort=G * rng.randint(0, 2) + half, alloc=[lone], prio=900)
            p.add_task("crew", effort=G * rng.randint(1, 4) + rng.choice([0, half]), alloc=mates, deps=[(pre, False, rng.choice([0, 0, 420]))], prio=850)
            p.add_task("after", effort=G, alloc=[rng.choice(mates)], prio=100)
        out.append(("sub%04d" % i, p))
    return out


def mixed_subslot(rng, n):
    """C01 / C03 / C06: backward-mode tasks (own deadline, sub-slot effort: they leave the FRONT of their earliest slot
    free) and forward-mode tasks (mid-slot bounds through predecessors on another resource: they leave the BACK of their last
    slot free) meeting in the slots of one resource."""
    out = []
    for i in range(n):
        G = rng.choice([3600, 3600, 1800])
        day0 = datetime(2025, 1, 6)
        p = Proj(start=day0, G=G, length="+4w")
        r = p.add_res("r0")
        q = p.add_res("q0")
        units = [u for u in (G // 2, G // 3, G // 4, G // 6, 600, 60 * 7) if u % 60 == 0 and u > 0]
        for k in range(rng.randint(1, 2)):
            dl = day0 + timedelta(days=rng.choice([0, 0, 0, 1]), hours=rng.choice([10, 10, 11, 11, 12, 14]), seconds=rng.choice([0, 0, G // 2]) // 60 * 60)
            p.add_task("z%d" % k, effort=G * rng.randint(0, 3) + rng.choice(units), alloc=[r], end=dl, mode="alap", prio=rng.choice([1000, 900, 300]))
        ts = []
        for k in range(rng.randint(1, 4)):
            pre = p.add_task("a%d" % k, effort=rng.choice(units) * rng.randint(1, 3), alloc=[q], prio=rng.choice([None, 800]))
            gap = rng.choice([0, 0, G // 2 // 60 * 60])
            ts.append(p.add_task("b%d" % k, effort=G * rng.randint(0, 4) + rng.choice(units + [0]) or G, alloc=[r], deps=[(pre, False, gap)],
                                 prio=rng.choice([None, 100, 950])))
        out.append(("mix%04d" % i, p))
    return out


# --------------------------------------------------------------------------------------
def _mk_resources(rng, p, n, effs=("1",), cal="default"):
    rs = []
    for k in range(n):
        kw = {}
        if cal == "mixed" and rng.random() < 0.5:
            kw["hours"] = rng.choice([std_hours(480, 960), std_hours(540, 1020, range(6)), std_hours(600, 1080)])
        rs.append(p.add_res("r%d" % k, eff=rng.choice(effs), **kw))
    return rs


def core_dialect(rng, n, max_tasks=7):
    """C07/C08/C09: slot-aligned calendars, efforts whole slots at the efficiency, DAGs, priorities, gaps,
    pins, leaves, teams, all resolutions."""
    out = []
    for i in range(n):
        G = rng.choice([3600, 3600, 1800, 900, 600, 300])
        start = datetime(2024, 1, 1) + timedelta(days=rng.randrange(0, 14), hours=rng.choice([0, 0, 0, 9, 13, 14, 15]))
        p = Proj(start=start, G=G, length="+6w")
        nres = rng.randint(1, 3)
        rs = []
        for k in range(nres):
            eff = rng.choice(["1", "1", "1", "2", "0.5"])
            hours = None
            if rng.random() < 0.4:
                a = rng.choice([480, 540, 600])
                hours = std_hours(a, a + 60 * rng.choice([4, 6, 8]), range(rng.choice([5, 6, 7])))
            leaves = []
            if rng.random() < 0.3:
                d0 = start.replace(hour=0, minute=0) + timedelta(days=rng.randint(1, 9))
                leaves.append((d0, d0 + timedelta(days=rng.randint(1, 3))))
            lim = []
            if rng.random() < 0.25:
                lim.append(("d", 3600 * rng.choice([2, 3, 4, 6])) if rng.random() < 0.7 else ("w", 3600 * rng.choice([8, 10, 16])))
            rs.append(p.add_res("r%d" % k, eff=eff, hours=hours, leaves=leaves, limits=lim))
        nt = rng.randint(2, max_tasks)
        ts = []
        for k in range(nt):
            team = [rng.choice(rs)]
            if len(rs) > 1 and rng.random() < 0.2:
                # team of equal efficiency members
                same = [r for r in rs if r.eff == team[0].eff and r is not team[0]]
                if same:
                    team.append(rng.choice(same))
            eff = team[0].eff
            slots = rng.randint(1, 12)
            effort = int(slots * G * eff)          # whole slots of clock time
            if effort % 60:
                effort = slots * G
                team = [r for r in rs if r.eff == 1][:1] or [p.add_res("rx%d" % k)]
            deps = []
            if ts and rng.random() < 0.6:
                for d in rng.sample(ts, min(len(ts), rng.choice([1, 1, 2]))):
                    gap = rng.choice([0, 0, G, 2 * G, G // 2 if (G // 2) % 60 == 0 else G, 86400]) if rng.random() < 0.4 else 0
                    deps.append((d, rng.random() < 0.15, gap))
            prio = rng.choice([None, None, 300, 500, 700, 900])
            st = None
            if rng.random() < 0.15:
                st = start.replace(hour=0, minute=0) + timedelta(days=rng.randint(0, 6), hours=rng.choice([9, 10, 13]))
                if st < start:
                    st = None
            ts.append(p.add_task("t%d" % k, effort=effort, alloc=team, deps=deps, prio=prio, start=st))
        if nt >= 3 and rng.random() < 0.35:
            # put a prefix of the tasks into a container and let later tasks depend on the container
            box = Task("box")
            cut = rng.randint(1, nt - 2)
            inside = ts[:cut]
            for t in inside:
                t.parent = box
                box.kids.append(t)
            p.tasks.insert(0, box)
            for t in ts[cut:]:
                if rng.random() < 0.5 and not any(d[0] in inside for d in t.deps):
                    t.deps.append((box, False, rng.choice([0, 0, G])))
        out.append(("core%04d" % i, p))
    return out


def calendars(rng, n, zones=None):
    """C02: own hours (several intervals, cross-midnight, day subsets), shifts, time zones with DST,
    leaves / vacations / bookings, resolutions, ASAP and ALAP."""
    zones = zones or ["Asia/Tokyo", "America/New_York", "Europe/Berlin", "Australia/Sydney", "Asia/Kolkata",
                      "Pacific/Kiritimati", "Pacific/Pago_Pago", "America/St_Johns", "Asia/Kathmandu", "Europe/London",
                      "America/Sao_Paulo", "Pacific/Chatham", "UTC"]
    dst_starts = [datetime(2024, 3, 4), datetime(2024, 3, 25), datetime(2024, 10, 21), datetime(2024, 10, 28),
                  datetime(2024, 3, 31), datetime(2024, 9, 30), datetime(2024, 1, 1), datetime(2025, 3, 3)]
    out = []
    for i in range(n):
        G = rng.choice([3600, 3600, 1800, 900])
        start = rng.choice(dst_starts) + timedelta(hours=rng.choice([0, 0, 6, 9]))
        site = (i % 5 == 2)       # backward project whose first resource works default hours in a zone it inherits from its site
        alap = rng.random() < 0.25 or site
        vac = []
        if rng.random() < 0.3:
            v0 = start.replace(hour=0) + timedelta(days=rng.randint(1, 6))
            vac.append((v0, v0 + timedelta(days=rng.randint(1, 2)) if rng.random() < 0.6 else None))
        if rng.random() < 0.25:
            # a company holiday that begins and ends in the middle of a working day (the first slot after it is a working slot)
            v0 = start.replace(hour=0) + timedelta(days=rng.randint(1, 9), hours=rng.choice([10, 12, 14]))
            vac.append((v0, v0 + timedelta(hours=rng.choice([2, 3, 24, 26, 49]))))
        gl = []
        if rng.random() < 0.2:
            v0 = start.replace(hour=0) + timedelta(days=rng.randint(1, 8))
            gl.append((v0, v0 + timedelta(days=1) if rng.random() < 0.5 else None))
        if rng.random() < 0.3:
            # a short free period inside a longer one (ending earlier), or two overlapping ones, in either order of declaration
            v0 = start.replace(hour=0) + timedelta(days=rng.randint(1, 5))
            outer = (v0, v0 + timedelta(days=rng.randint(3, 6)))
            i0 = v0 + timedelta(days=rng.randint(0, 2))
            inner = (i0, i0 + timedelta(days=rng.randint(1, 2)) if rng.random() < 0.6 else None)
            if rng.random() < 0.3:
                inner = (i0, outer[1] + timedelta(days=rng.randint(0, 2)))      # overlapping / ending later
            pair = [outer, inner]
            rng.shuffle(pair)
            (vac if rng.random() < 0.7 else gl).extend(pair)
        p = Proj(start=start, G=G, length="+3w", alap=alap, vac=vac, gleaves=gl)
        if i % 4 == 1:
            # the dates of the text are in the zone the project header names; a resource in a zone of its own works at ITS local time
            p.ptz = rng.choice(["America/New_York", "Europe/Berlin", "Asia/Tokyo", "Australia/Sydney", "America/Los_Angeles", "Europe/London"])
        if rng.random() < 0.25:
            # the project header declares the default working hours (for everybody without hours / shift of their own)
            p.default_hours = rng.choice([std_hours(480, 720, range(4)), std_hours(600, 1140), {d: [(420, 660), (720, 900)] for d in range(6)}])
            if G <= 1800 and rng.random() < 0.6:
                # edges on the slot grid but off the full hour: every slot of a clock hour has an answer of its own
                q = G // 60
                p.default_hours = rng.choice([{d: [(480, 720), (780, 1020 + q)] for d in range(4)}, std_hours(480 + q, 1020 - q),
                                              {d: [(420 + q, 660 + q), (720 + q, 900 + 2 * q if q < 30 else 930)] for d in range(6)}])
        rs = []
        for k in range(rng.randint(1, 3)):
            style = rng.choice(["default", "day", "two", "night", "subset", "shift"])
            hours = None
            shift = None
            if style == "day":
                a = rng.choice([360, 480, 540])
                if G <= 1800 and rng.random() < 0.4:
                    a += G // 60           # on the slot grid, off the full hour
                hours = std_hours(a, a + 480, range(rng.choice([5, 7])))
            elif style == "two":
                two = [(480, 720), (780, 1020)]
                if rng.random() < 0.5:
                    two.reverse()               # written afternoon first: the order of the intervals must not matter
                hours = {d: list(two) for d in range(5)}
            elif style == "night":
                hours = {d: [(1320, 360)] for d in rng.choice([range(5), range(7), [0, 2, 4]])}
            elif style == "subset":
                hours = {d: [(540, 1020)] for d in rng.sample(range(7), 3)}
            elif style == "shift":
                sl = []
                if rng.random() < 0.4:      # the shift itself is off for a day or a few: nobody who works it is there
                    s0 = start.replace(hour=0, minute=0) + timedelta(days=rng.randint(0, 6))
                    sl.append((s0, s0 + timedelta(days=rng.randint(1, 3)) if rng.random() < 0.6 else None))
                shift = p.add_shift("s%d" % k, rng.choice([std_hours(540, 1080), {d: [(1320, 360)] for d in range(5)},
                                                           {d: [(0, 480), (960, 1440)] for d in range(7)}]), leaves=sl)
            tz = rng.choice(zones) if rng.random() < (0.6 if (hours is not None or shift) else 0.3) else None      # also with default hours: worked at local time
            parent = None
            if rng.random() < 0.25:
                # a group that declares hours (inline or through a shift); its people inherit them unless they declare their own
                gh = rng.choice([std_hours(720, 1200), std_hours(360, 840, range(6)), {d: [(1320, 360)] for d in range(5)}])
                if rng.random() < 0.5:
                    parent = p.add_res("g%d" % k, shift=p.add_shift("gs%d" % k, gh))
                else:
                    parent = p.add_res("g%d" % k, hours=gh)
                if style == "default" or rng.random() < 0.3:
                    hours, shift = None, None           # inherits the group's hours
                if rng.random() < 0.6:
                    # the whole group is away: that applies to everybody below it, with or without leaves of their own
                    g0 = start.replace(hour=0, minute=0) + timedelta(days=rng.randint(0, 6))
                    if rng.random() < 0.5:
                        parent.leaves.append((g0, g0 + timedelta(days=rng.randint(1, 3)) if rng.random() < 0.6 else None))
                    else:
                        parent.vacations.append((g0, g0 + timedelta(days=rng.randint(1, 2)) if rng.random() < 0.6 else None))
            leaves = []
            bookings = []
            if rng.random() < 0.35:
                d0 = start.replace(hour=0, minute=0) + timedelta(days=rng.randint(1, 8))
                leaves.append((d0, d0 + timedelta(days=rng.randint(1, 3)) if rng.random() < 0.7 else None))
            if rng.random() < 0.2:
                b0 = start.replace(hour=0, minute=0) + timedelta(days=rng.randint(1, 5), hours=rng.choice([9, 12, 23]))
                bookings.append((b0, rng.choice([2, 4, 6, 24, 48, 168]) * 3600))
            if site and k == 0:
                hours, shift, parent, leaves, bookings = None, None, None, [], []
                tz = tz or rng.choice(zones)
            if tz and parent is None and (rng.random() < 0.4 or (site and k == 0)):
                parent = p.add_res("z%d" % k, tz=tz)        # a site: nothing but the zone, which its people inherit
                tz = None
            rs.append(p.add_res("r%d" % k, parent=parent, hours=hours, shift=shift, tz=tz, leaves=leaves, bookings=bookings))
        ts = []
        endpin = start + timedelta(days=14, hours=rng.choice([0, 0, 3, 6, 22]))       # also at hours nobody works in project time
        for k in range(rng.randint(1, 4)):
            r = rng.choice(rs)
            effort = G * rng.randint(2, 30)
            half = G // 2 if (G // 2) % 60 == 0 else 300
            if rng.random() < 0.3:
                effort += half              # ends inside a slot: the successor's bound is a mid-slot instant
            deps = [(rng.choice(ts), False, rng.choice([0, 0, half]))] if ts and rng.random() < 0.5 else []
            t = p.add_task("t%d" % k, effort=effort, alloc=[r], deps=deps)
            ts.append(t)
        if rng.random() < 0.15 and not alap:
            # a milestone the user put inside a slot, followed by work
            ms = p.add_task("ms", milestone=True, start=start.replace(hour=0, minute=0) + timedelta(days=rng.randint(1, 8), hours=rng.choice([10, 11, 14]), seconds=G // 2 if (G // 2) % 60 == 0 else 300))
            p.add_task("after", effort=G * rng.randint(1, 6), alloc=[rng.choice(rs)], deps=[(ms, False, 0)])
        if alap:
            # deadlines only on sinks
            sinks = [t for t in ts if not any(d[0] is t for u in ts for d in u.deps)]
            for t in sinks:
                t.end = endpin
        out.append(("cal%04d" % i, p))
    return out


def dags(rng, n, alap_share=0.3):
    """C04: nested task trees, own / inherited / precedes dependencies, gaps, on-start, dated containers."""
    out = []
    for i in range(n):
        G = rng.choice([3600, 3600, 1800])
        start = datetime(2024, 2, 5)
        alap = rng.random() < alap_share
        p = Proj(start=start, G=G, length="+8w", alap=alap)
        rs = [p.add_res("r%d" % k) for k in range(rng.randint(1, 3))]
        conts = []
        leaves = []
        allt = []

        def mk(parent, depth, prefix):
            nk = rng.randint(1, 3)
            for k in range(nk):
                name = "%s%d" % (prefix, k)
                if depth < 3 and rng.random() < 0.35:
                    c = p.add_task(name, parent=parent)
                    if not alap and rng.random() < 0.3:
                        c.start = start + timedelta(days=rng.randint(0, 5), hours=9)
                    conts.append(c)
                    allt.append(c)
                    mk(c, depth + 1, name + "x")
                else:
                    ms = rng.random() < 0.1
                    t = p.add_task(name, parent=parent, effort=0 if ms else G * rng.randint(1, 10) // rng.choice([1, 1, 2]),
                                   alloc=[] if ms else [rng.choice(rs)], milestone=ms,
                                   prio=rng.choice([None, None, 300, 700]))
                    if t.effort % 60:
                        t.effort = G
                    leaves.append(t)
                    allt.append(t)
        mk(None, 0, "n")
        # dependencies: only backwards in declaration order -> DAG; containers may carry them too
        order = p.ordered(p.tasks)
        pos = {id(t): j for j, t in enumerate(order)}

        def related(a, b):
            x = a
            while x is not None:
                if x is b:
                    return True
                x = x.parent
            x = b
            while x is not None:
                if x is a:
                    return True
                x = x.parent
            return False
        for t in order:
            if rng.random() < 0.5:
                cands = [u for u in order if pos[id(u)] < pos[id(t)] and not related(u, t) and (not u.kids or rng.random() < 0.5)]
                cands = [u for u in cands if not u.kids or rng.random() < 0.5]  # containers may be predecessors too
                if cands:
                    for u in rng.sample(cands, min(len(cands), rng.choice([1, 1, 2]))):
                        gap = rng.choice([0, 0, G // 2, G, 4 * G, 86400]) if rng.random() < 0.5 else 0
                        if gap % 60:
                            gap = G
                        onstart = (not alap) and rng.random() < 0.2
                        if rng.random() < 0.2 and not onstart and not t.kids and not u.kids and not alap:
                            u.precedes.append((t, gap) if gap else t)         # `precedes` may carry the gap
                            if rng.random() < 0.3:
                                t.deps.append((u, True, 0))               # ... next to an on-start edge to the same task
                        elif rng.random() < 0.15 and not gap and not onstart and not t.kids and not u.kids:
                            u.precedes.append(t)
                        else:
                            t.deps.append((u, onstart, gap))
        for c in conts:
            if c.deps and c.kids and rng.random() < 0.6:
                if not c.deps[0][2] and not c.deps[0][1] and rng.random() < 0.6:
                    c.deps[0] = (c.deps[0][0], False, G * rng.choice([1, 2, 4, 20]))        # the outer edge is the stricter one
                u, onstart, gap = c.deps[0][0], c.deps[0][1], c.deps[0][2]
                kid = rng.choice(c.kids)
                if not any(d[0] is u for d in kid.deps) and not related(u, kid):
                    kid.deps.append((u, False, rng.choice([0, 0, G]) if gap else rng.choice([0, 2 * G])))
                if rng.random() < 0.4 and not alap and not onstart and not u.kids:
                    # an on-start edge of a task inside the container to the SAME predecessor with the SAME options: the
                    # container's finish-to-start edge still binds the task (it is another edge, not a repetition)
                    k2 = rng.choice([k for k in c.kids])
                    if not k2.kids and not any(d[0] is u for d in k2.deps) and not related(u, k2):
                        k2.deps.append((u, True, gap))
                if rng.random() < 0.5 and not alap:
                    p.add_task(c.name + "tag", parent=c, milestone=True, deps=[(u, False, 0)])      # a milestone below the container: at the container's bound
        if alap:
            def chain(t):       # the task and every container around it: an edge to any of them makes t a predecessor
                out_ = []
                while t is not None:
                    out_.append(t)
                    t = t.parent
                return out_
            sinks = [t for t in leaves if not any(any(d[0] is a for a in chain(t)) for u in order for d in u.deps)
                     and not any(any(a is (pr[0] if isinstance(pr, tuple) else pr) for a in chain(t)) for u in order for pr in u.precedes) and not t.precedes]
            for t in sinks:
                if rng.random() < 0.7:
                    t.end = start + timedelta(days=rng.randint(20, 30), hours=17)
            for c in conts:
                if c.parent is None and rng.random() < 0.4:
                    c.end = start + timedelta(days=rng.randint(25, 35), hours=17)
                elif c.parent is not None and rng.random() < 0.25:
                    # a deadline on a container that is itself inside one (with or without a deadline further up)
                    c.end = start + timedelta(days=rng.randint(18, 30), hours=rng.choice([12, 17]))
        out.append(("dag%04d" % i, p))
    return out


def jit(rng, n):
    """C08 / C04 / C16: forward projects with a few backward ANCHORS (scheduling alap + an end of their own) whose predecessors
    state no direction: they are pulled back to finish just in time -- transitively, through leaf predecessors only, and not
    past a forward task that has a start to keep.  Other tasks of the project stay forward."""
    out = []
    for i in range(n):
        G = rng.choice([3600, 1800])
        start = datetime(2025, 5, 5)
        p = Proj(start=start, G=G, length="+6w")
        rs = [p.add_res("r%d" % k) for k in range(rng.randint(2, 3))]
        for a in range(rng.randint(1, 2)):
            chain = []
            box = p.add_task("wp%d" % a, start=start + timedelta(days=rng.randint(0, 3), hours=9)) if rng.random() < 0.3 else None
            for k in range(rng.randint(1, 4)):
                kw = {}
                x = rng.random()
                if x < 0.15:
                    kw["start"] = start + timedelta(days=rng.randint(0, 4), hours=rng.choice([9, 13]))     # has a start to keep: stays forward
                elif x < 0.3:
                    kw["mode"] = "asap"                                                                # says asap but has no start: pulled back all the same
                deps = [(chain[-1], False, rng.choice([0, 0, G]))] if chain else []
                if chain and len(chain) > 1 and rng.random() < 0.3:
                    deps.append((chain[0], False, 0))
                chain.append(p.add_task("s%d_%d" % (a, k), parent=box if (box and rng.random() < 0.6) else None, effort=G * rng.randint(2, 12),
                                        alloc=[rng.choice(rs)], deps=deps, prio=rng.choice([None, 600]), **kw))
            anchor = p.add_task("ship%d" % a, effort=G * rng.randint(1, 6), alloc=[rng.choice(rs)], mode="alap",
                                end=start + timedelta(days=rng.randint(15, 30), hours=rng.choice([12, 17])),
                                deps=[(chain[-1], False, rng.choice([0, G, 86400]))] + ([(box, False, 0)] if box and rng.random() < 0.3 else []))
        for k in range(rng.randint(1, 3)):
            p.add_task("other%d" % k, effort=G * rng.randint(3, 20), alloc=[rng.choice(rs)], prio=rng.choice([None, 300, 800]))
        out.append(("jit%04d" % i, p))
    return out


def dags_alap(rng, n):
    """C08 / C04 backward mode: the nested DAGs of `dags`, every one of them scheduled backward; half of them get a task that
    waits for a whole CONTAINER (a work package), mostly without a date of its own: everything inside the container must be over
    before it starts, although no leaf in there is named by the edge."""
    out = []
    for pid, p in dags(rng, n, alap_share=1.0):
        conts = [c for c in p.tasks if c.kids and any(not k.kids and k.effort for k in c.kids)]
        if conts and rng.random() < 0.5:
            c = rng.choice(conts)
            r = next(k for k in c.kids if not k.kids and k.effort).alloc
            gate = p.add_task("gate", effort=p.G * rng.randint(1, 6), alloc=list(r), deps=[(c, False, rng.choice([0, 0, p.G]))])
            if rng.random() < 0.3:
                # (with a date of its own the gate is exempt from C04 -- but whoever waits for the GATE is not)
                gate.end = p.start + timedelta(days=rng.randint(8, 16), hours=rng.choice([12, 17]))
            # the leaves of that container are no sinks any more: deadlines written on them would contradict the edge
            for k in p.ordered([c]):
                if not k.kids:
                    k.end = None
        out.append(("b" + pid, p))
    # work packages inside a dated release: `w1` must be over before its sibling `w10` (or `w1_docs`, `w1x`) begins.  The ids
    # share a prefix although neither is inside the other; the release's end is the deadline of whatever has no successor.
    for i in range(max(2, n // 6)):
        G = rng.choice([3600, 3600, 1800])
        start = datetime(2025, 2, 3)
        p = Proj(start=start, G=G, length="+8w", alap=rng.random() < 0.5)
        rs = [p.add_res("r%d" % k) for k in range(3)]
        rel = p.add_task("rel")
        rel.end = start + timedelta(days=rng.randint(18, 30), hours=17)
        if not p.alap:
            rel.mode = "alap"
        base = rng.choice(["w1", "ph", "build"])
        first = p.add_task(base, parent=rel)
        for k in range(rng.randint(1, 3)):
            p.add_task("s%d" % k, parent=first, effort=G * rng.randint(4, 20), alloc=[rng.choice(rs)])
        for sfx in rng.sample(["0", "_docs", "x", "1"], rng.randint(1, 2)):
            nxt = p.add_task(base + sfx, parent=rel)
            gap = G * rng.choice([0, 0, 8, 24])
            if rng.random() < 0.6:
                nxt.deps.append((first, False, gap))            # written on the container: inherited by everything inside
                for k in range(rng.randint(1, 2)):
                    p.add_task("d%d" % k, parent=nxt, effort=G * rng.randint(2, 12), alloc=[rng.choice(rs)])
            else:
                for k in range(rng.randint(1, 2)):
                    p.add_task("d%d" % k, parent=nxt, effort=G * rng.randint(2, 12), alloc=[rng.choice(rs)], deps=[(first, False, gap)])
        out.append(("bpre%04d" % i, p))
    return out


def limits_profile(rng, n):
    """C05: dailymax / weeklymax on resources, resource groups, task subtrees; overrunning projects; year ends."""
    starts = [datetime(2024, 1, 1), datetime(2024, 2, 26), datetime(2020, 12, 21), datetime(2026, 12, 21),
              datetime(2021, 1, 1), datetime(2027, 1, 1), datetime(2024, 12, 23), datetime(2025, 12, 29),
              datetime(2024, 1, 3), datetime(2024, 1, 6), datetime(2023, 12, 31)]
    out = []
    for i in range(n):
        G = rng.choice([3600, 3600, 1800, 900])
        start = rng.choice(starts) + timedelta(days=rng.randrange(0, 7), hours=rng.choice([0, 0, 0, 9, 11, 13, 15, 22]))
        length = rng.choice(["+1w", "+2w", "+4w", "+3d"])
        p = Proj(start=start, G=G, length=length)
        grp = p.add_res("g") if rng.random() < 0.5 else None
        if grp is not None and rng.random() < 0.7:
            grp.limits.append((rng.choice(["d", "w"]), 3600 * rng.choice([3, 4, 5, 6, 7, 9, 10, 20])))
        subs = []
        if grp is not None and rng.random() < 0.5:
            # sub-groups: the limit of `g` then sits two levels above the people
            subs = [p.add_res("sg%d" % k, parent=grp) for k in range(rng.randint(1, 2))]
            for sg in subs:
                if rng.random() < 0.3:
                    sg.limits.append((rng.choice(["d", "w"]), 3600 * rng.choice([3, 5, 8, 16])))
        rs = []
        for k in range(rng.randint(1, 3) + (1 if subs else 0)):
            lim = []
            if rng.random() < (0.3 if subs else 0.6):
                kind = rng.choice(["d", "d", "w"])
                val = rng.choice([2, 3, 4, 6, 6.5, 2.5]) * 3600 if kind == "d" else rng.choice([8, 10, 16, 20, 12.5]) * 3600
                if G == 3600 and rng.random() < 0.12:
                    val = 1800          # less than one slot a day / week: nothing can be booked, inside the declared window or beyond it
                lim.append((kind, int(val)))
            hours = std_hours(540, 1020, range(7)) if rng.random() < 0.4 else None
            par = (subs[k % len(subs)] if subs else grp) if (grp and rng.random() < 0.8) else None
            rs.append(p.add_res("r%d" % k, parent=par, limits=lim, hours=hours))
        cont = p.add_task("c") if rng.random() < 0.5 else None
        if cont is not None and rng.random() < 0.6:
            cont.limits.append((rng.choice(["d", "w"]), 3600 * rng.choice([3, 5, 8, 12]), rng.choice([None, None, rng.choice(rs)])))
        ts = []
        for k in range(rng.randint(1, 5)):
            r = rng.choice(rs)
            effort = 3600 * rng.randint(2, 40)
            if rng.random() < 0.3:
                effort = 900 * rng.randint(3, 70)        # ends inside a slot: the successor starts there on its own resource
            lim = []
            if rng.random() < 0.25:
                lim.append((rng.choice(["d", "w"]), 3600 * rng.choice([2, 4, 10]), None))
            deps = [(rng.choice(ts), False, 0)] if ts and rng.random() < 0.4 else []
            team = [r]
            if len(rs) > 1 and rng.random() < (0.5 if subs else 0.3):
                team = rng.sample(rs, rng.randint(2, len(rs)))
            ts.append(p.add_task("t%d" % k, parent=cont if (cont and rng.random() < 0.7) else None, effort=effort,
                                 alloc=team, deps=deps, limits=lim, prio=rng.choice([None, 300, 700])))
        if rng.random() < 0.3:
            # hand-over inside a slot: `use` exhausts today's allowance of a limited resource, `pre` ends inside a slot on
            # another resource, `post` continues on the limited resource from that instant (it has to wait for a new period)
            lim_r = rng.choice([r for r in rs if r.limits] or rs)
            free = p.add_res("free")
            hrs = max([v for k, v in lim_r.limits if k == "d"] + [0]) // 3600 or rng.choice([2, 3, 4])
            p.add_task("use", effort=3600 * hrs, alloc=[lim_r], prio=950)
            pre = p.add_task("pre", effort=900 * rng.choice([5, 7, 13, 17, 18, 21]), alloc=[free], prio=940)
            p.add_task("post", effort=900 * rng.choice([1, 2, 3, 6, 9]), alloc=[lim_r], prio=930, deps=[(pre, False, rng.choice([0, 0, 900]))])
        if rng.random() < 0.25:
            # department -> group -> person: a budget two levels above a team whose members sit in different groups
            # (room for some members only must mean room for nobody)
            dept = p.add_res("dept", limits=[(rng.choice(["d", "d", "w"]), 3600 * rng.choice([3, 5, 7, 9]))])
            g1, g2 = p.add_res("fe", parent=dept), p.add_res("be", parent=dept)
            m1, m2 = p.add_res("ann", parent=g1), p.add_res("bob", parent=g2)
            mates = [m1, m2]
            if rng.random() < 0.4:
                mates.append(p.add_res("cyd", parent=rng.choice([g1, g2])))
            if rng.random() < 0.4:
                p.add_task("upkeep", effort=3600 * rng.choice([1, 3]), alloc=[rng.choice(mates)], prio=900,
                           limits=[("d", 3600, None)] if rng.random() < 0.5 else [])
            p.add_task("pair", effort=3600 * rng.randint(3, 12), alloc=rng.sample(mates, rng.randint(2, len(mates))), prio=rng.choice([None, 800]))
        out.append(("lim%04d" % i, p))
    return out


def trees(rng, n):
    """C10: deep task trees with a mix of schedulable and unschedulable leaves, resource groups."""
    out = []
    for i in range(n):
        G = 3600
        start = datetime(2024, 4, 1)
        p = Proj(start=start, G=G, length="+2w")
        grp = p.add_res("team")
        rs = [p.add_res("r%d" % k, parent=grp) for k in range(2)]
        # on leave for the whole horizon: tasks allocated to it cannot be placed
        never = p.add_res("never", leaves=[(start, start + timedelta(days=400))])
        leaves = []

        reuse = rng.random() < 0.4          # local ids repeat under different parents (unique among siblings only)

        def mk(parent, depth, prefix):
            for k in range(rng.randint(1, 3)):
                name = "%s%d" % ("n" if reuse else prefix, k)
                if depth < 6 and rng.random() < (0.6 if depth < 3 else 0.3):
                    c = p.add_task(name, parent=parent)
                    mk(c, depth + 1, name + "y")
                else:
                    kind = rng.random()
                    if kind < 0.03 and (G // 2) % 60 == 0:
                        # the group itself is asked for, and the bound lies inside a slot (the predecessor ends mid-slot): the task
                        # cannot progress (D21), and nothing may be recorded as used on the group
                        pre = p.add_task(name + "pre", parent=parent, effort=G * rng.randint(1, 3) + G // 2, alloc=[rng.choice(rs)])
                        leaves.append(pre)
                        t = p.add_task(name, parent=parent, effort=G * rng.randint(1, 4), alloc=[grp], deps=[(pre, False, 0)])
                    elif kind < 0.06:
                        t = p.add_task(name, parent=parent, effort=G * rng.randint(1, 4), alloc=[grp], alt=[rng.choice(rs)])
                    elif kind < 0.10:
                        t = p.add_task(name, parent=parent, effort=G * rng.randint(1, 4), alloc=[rng.choice(rs)], alt=[grp])
                    elif kind < 0.16:
                        t = p.add_task(name, parent=parent, effort=G * rng.randint(1, 4), alloc=[never])
                    elif kind < 0.2:
                        t = p.add_task(name, parent=parent, milestone=True)
                    else:
                        t = p.add_task(name, parent=parent, effort=G * rng.randint(1, 12), alloc=[rng.choice(rs)])
                    if leaves and rng.random() < 0.3:
                        d = rng.choice(leaves)
                        if d is not t:
                            t.deps.append((d, False, 0))
                    leaves.append(t)
        mk(None, 0, "n")
        out.append(("tree%04d" % i, p))
    return out


def alap_profile(rng, n):
    """C06/C08 backward mode: project-level and task-level ALAP, explicit-end anchors, container deadlines."""
    out = []
    for i in range(n):
        G = rng.choice([3600, 3600, 1800])
        start = datetime(2024, 5, 6)
        proj_alap = rng.random() < 0.5
        p = Proj(start=start, G=G, length="+4w", alap=proj_alap)
        rs = [p.add_res("r%d" % k, eff=rng.choice(["1", "1", "1", "2", "0.5"])) for k in range(rng.randint(1, 3))]
        cont = p.add_task("c") if rng.random() < 0.4 else None
        if cont is not None:
            cont.end = start + timedelta(days=rng.randint(10, 20), hours=rng.choice([9, 12, 17]))
        ts = []
        if cont is not None and rng.random() < 0.3:
            # effort and allocation written on the container; a flagged milestone and a plain leaf below it inherit them
            cont.effort = G * rng.randint(2, 9)
            cont.alloc = [rng.choice(rs)]
            ts.append(p.add_task("m", parent=cont, milestone=True, mode=None if proj_alap else "alap"))
            if rng.random() < 0.5:
                ts.append(p.add_task("inh", parent=cont, mode=None if proj_alap else "alap"))
        for k in range(rng.randint(2, 6)):
            r = rng.choice(rs)
            unit = rng.choice([G, G, G // 2, G // 4])
            if unit % 60:
                unit = G
            effort = unit * rng.randint(1, 14)
            deps = []
            if ts and rng.random() < 0.7:
                for d in rng.sample(ts, min(len(ts), rng.choice([1, 1, 2]))):
                    gap = rng.choice([G, 2 * G, 4 * G, 8 * G]) if rng.random() < 0.5 else 0
                    deps.append((d, False, gap))
            team = [r]
            if len(rs) > 1 and rng.random() < 0.25:
                mates = [x for x in rs if x is not r and x.eff == r.eff]
                if mates:
                    team = [r, mates[0]] if rng.random() < 0.5 else [mates[0], r]      # the busier member may be listed first or last
            alts = []
            if len(team) == 1 and len(rs) > 1 and rng.random() < 0.3:
                # a backward task that may be done by somebody else: the choice is made once, before the first slot is booked
                alts = [x for x in rs if x is not r]
                rng.shuffle(alts)
            t = p.add_task("t%d" % k, parent=cont if (cont and rng.random() < 0.7) else None, effort=effort, alloc=team, alt=alts,
                           deps=deps, mode=None if proj_alap else "alap")
            ts.append(t)
        sinks = [t for t in ts if not any(d[0] is t for u in ts for d in u.deps)]
        for t in sinks:
            if t.parent is None or rng.random() < 0.5:
                t.end = start + timedelta(days=rng.randint(8, 22), hours=rng.choice([10, 13, 17]))
        if len(rs) > 1 and rng.random() < 0.3:
            a, b = rng.sample(rs, 2)
            if a.eff == b.eff == 1:
                half = G // 2 if (G // 2) % 60 == 0 else G
                quarter = G // 4 if (G // 4) % 60 == 0 else half
                late = p.add_task("late", effort=G * rng.randint(1, 3) + half, alloc=[a], mode=None if proj_alap else "alap")
                late.end = start + timedelta(days=rng.randint(23, 26), hours=rng.choice([12, 15, 17]))
                pair = p.add_task("pair", effort=rng.choice([quarter, quarter, half, G + quarter]), alloc=rng.choice([[a, b], [b, a]]),
                                  mode=None if proj_alap else "alap")
                late.deps.append((pair, False, 0))
                if rng.random() < 0.5:
                    p.add_task("solo", effort=quarter, alloc=[rng.choice([a, b])], mode=None if proj_alap else "alap").precedes.append(pair) if False else None
        if len(rs) > 1 and rng.random() < 0.3:
            # several backward tasks anchored at the same instant, a team among them: they pack into the same slots from the end
            a, b = rng.sample(rs, 2)
            if a.eff == b.eff == 1:
                D = start + timedelta(days=rng.randint(24, 27), hours=rng.choice([12, 17]))
                half = G // 2 if (G // 2) % 60 == 0 else G
                quarter = G // 4 if (G // 4) % 60 == 0 else half
                trio = [("x", G * rng.randint(1, 3) + half, [a]), ("y", rng.choice([quarter, half, G + quarter]), rng.choice([[a, b], [b, a]])),
                        ("z", G * rng.randint(1, 2) + quarter, [b])]
                rng.shuffle(trio)
                for nm, eff, al in trio:
                    p.add_task("s" + nm, effort=eff, alloc=al, mode=None if proj_alap else "alap", end=D)
        if rng.random() < 0.12:
            # a dependency loop through an anchored task: nobody on the loop can be placed consistently
            anch = [t for t in sinks if t.end is not None and t.deps]
            if anch:
                s = rng.choice(anch)
                s.deps[0][0].deps.append((s, False, rng.choice([0, G])))
        out.append(("alap%04d" % i, p))
    return out


def alap_pack(rng, n):
    """C01 / C03 / C06 backward mode: several tasks anchored at the same (or a nearby) instant pack into the same slots from the
    end; teams of two or three in every order of their members, efforts of quarter slots, so that a team starts inside a slot
    whose tail one of its members has already given to another task."""
    out = []
    for i in range(n):
        G = rng.choice([3600, 3600, 1800])
        start = datetime(2025, 6, 2)
        proj_alap = rng.random() < 0.5
        p = Proj(start=start, G=G, length="+2w", alap=proj_alap)
        rs = [p.add_res(nm) for nm in ("a", "b", "c")[:rng.randint(2, 3)]]
        D = start + timedelta(days=4, hours=rng.choice([12, 17]))
        q = G // 4 if (G // 4) % 60 == 0 else G // 2        # 1800-second slots: half slots (whole minutes)
        tasks = []
        for k in range(rng.randint(3, 5)):
            if rng.random() < 0.45 and len(rs) > 1:
                al = rng.sample(rs, rng.randint(2, len(rs)))          # a team, members in a random order
                eff = q * rng.choice([1, 1, 2, 3, 5])
            else:
                al = [rng.choice(rs)]
                eff = q * rng.choice([2, 6, 9, 10, 11, 4])
            end = D if rng.random() < 0.8 else D - timedelta(seconds=G * rng.randint(1, 3))
            tasks.append(p.add_task("t%d" % k, effort=eff, alloc=al, mode=None if proj_alap else "alap", end=end,
                                    prio=rng.choice([None, None, 600, 400])))
        if i % 4 == 3:
            # the project begins on a working slot and the deadline lies a few slots later: the last task to be placed finds
            # room only in the very FIRST slot of the tables (slot index 0)
            start = datetime(2025, 6, 2, 9)
            p = Proj(start=start, G=G, length="+2w", alap=proj_alap)
            a = p.add_res("a")
            k = rng.randint(2, 5)
            D = start + timedelta(seconds=G * k)
            p.add_task("long", effort=G * (k - 1), alloc=[a], mode=None if proj_alap else "alap", end=D, prio=900)
            p.add_task("short", effort=q * rng.choice([1, 2, 3, G // q]), alloc=[a], mode=None if proj_alap else "alap",
                       end=D - timedelta(seconds=G * rng.choice([0, 0, 1])), prio=100)
        out.append(("pack%04d" % i, p))
    return out


def staged_containers(rng, n):
    """C04 / C08 (both directions): three container levels, dependencies written on the two outer levels (so that a leaf
    inherits from EVERY enclosing container, not only from the nearest one that has some), leaves with and without edges of
    their own, gaps on the outer edges."""
    out = []
    for i in range(n):
        G = rng.choice([3600, 1800])
        start = datetime(2025, 3, 3)
        alap = rng.random() < 0.6
        p = Proj(start=start, G=G, length="+8w", alap=alap)
        rs = [p.add_res("r%d" % k) for k in range(rng.randint(1, 3))]
        mode = None
        t = p.add_task("t", effort=G * rng.randint(2, 12), alloc=[rng.choice(rs)])
        u = p.add_task("u", effort=G * rng.randint(2, 12), alloc=[rng.choice(rs)])
        c = p.add_task("c", deps=[(t, False, rng.choice([0, 0, G, 6 * G]))])
        d = p.add_task("d", parent=c, deps=[(u, False, rng.choice([0, G]))] if rng.random() < 0.8 else [])
        inner = d
        if rng.random() < 0.4:
            inner = p.add_task("e", parent=d, deps=[(u, False, 0)] if not d.deps else [])
        leaves = []
        for k in range(rng.randint(1, 3)):
            own = [(rng.choice(leaves), False, 0)] if leaves and rng.random() < 0.4 else []
            leaves.append(p.add_task("s%d" % k, parent=inner, effort=G * rng.randint(1, 8), alloc=[rng.choice(rs)], deps=own))
        if rng.random() < 0.5:
            leaves.append(p.add_task("side", parent=c, effort=G * rng.randint(1, 6), alloc=[rng.choice(rs)]))
        if alap:
            for s_ in leaves:
                if not any(x[0] is s_ for y in leaves for x in y.deps):
                    s_.end = start + timedelta(days=rng.randint(25, 40), hours=rng.choice([9, 13, 17]))
        out.append(("stage%04d" % i, p))
    return out


def ms_bounds(rng, n):
    """C06 (milestone at its dependency bound), C04: milestones whose bound comes from several nesting levels -- the same
    predecessor named by the milestone itself and by its container with a different gap, on-start edges, forward and backward
    (there the gap sits on the container of the successor)."""
    out = []
    for i in range(n):
        G = rng.choice([3600, 1800])
        start = datetime(2025, 6, 2)
        alap = rng.random() < 0.4
        p = Proj(start=start, G=G, length="+6w", alap=alap)
        rs = [p.add_res("r%d" % k) for k in range(rng.randint(1, 2))]
        half = G // 2
        if not alap:
            dev = p.add_task("dev", effort=G * rng.randint(2, 12) + rng.choice([0, half]), alloc=[rng.choice(rs)])
            other = p.add_task("other", effort=G * rng.randint(1, 6), alloc=[rng.choice(rs)])
            rel = p.add_task("rel", deps=[(dev, False, G * rng.choice([0, 4, 20]))])
            if rng.random() < 0.5:
                rel = p.add_task("stage", parent=rel, deps=[(other, rng.random() < 0.3, rng.choice([0, G]))])
            p.add_task("tag", parent=rel, milestone=True, deps=[(dev, False, rng.choice([0, 0, G]))] if rng.random() < 0.7 else [])
            p.add_task("ship", parent=rel, effort=G * rng.randint(1, 5), alloc=[rng.choice(rs)],
                       deps=[(dev, False, 0)] if rng.random() < 0.5 else [])
            p.add_task("note", milestone=True, deps=[(dev, True, rng.choice([0, G]))])          # on-start edge
        else:
            gate = p.add_task("gate", milestone=True)
            prep = p.add_task("prep", effort=G * rng.randint(2, 8), alloc=[rng.choice(rs)], deps=[])
            gate.deps.append((prep, False, rng.choice([0, G])))
            roll = p.add_task("rollout", deps=[(gate, False, G * rng.choice([0, 6, 24]))])
            go = p.add_task("go", parent=roll, effort=G * rng.randint(1, 6) + rng.choice([0, half]), alloc=[rng.choice(rs)],
                            deps=[(gate, False, rng.choice([0, 0, G]))] if rng.random() < 0.7 else [])
            go.end = start + timedelta(days=rng.randint(20, 30), hours=rng.choice([9, 13, 17]))
            if rng.random() < 0.5:
                p.add_task("mark", parent=roll, milestone=True, deps=[(go, False, 0)]).end = go.end + timedelta(hours=rng.choice([0, 24]))
            if rng.random() < 0.5:
                # a dated event inside a backward work package that has a deadline: the event stays where the user put it
                # (start = end), whatever the deadline of the package
                box = p.add_task("box")
                box.end = start + timedelta(days=rng.randint(18, 28), hours=rng.choice([12, 17]))
                p.add_task("kick", parent=box, milestone=rng.random() < 0.6, start=start + timedelta(days=rng.randint(3, 9), hours=rng.choice([9, 10, 15])))
                p.add_task("work", parent=box, effort=G * rng.randint(2, 9), alloc=[rng.choice(rs)])
        out.append(("msb%04d" % i, p))
    return out


def gap_bounds(rng, n):
    """C04 / C08 / C07: several lower bounds (forward) or upper bounds (backward) of one task, the binding one coming from
    the neighbour that is NOT the last to end / first to start: predecessors of different length with gaps that reverse
    their order, listed in either order, on-start edges among them; backward: successors with different gaps."""
    out = []
    for i in range(n):
        G = rng.choice([3600, 1800])
        start = datetime(2025, 9, 1)
        alap = rng.random() < 0.4
        maxgap_shape = (i % 4 == 3)
        p = Proj(start=start, G=G, length="+6w", alap=alap)
        rs = [p.add_res("r%d" % k) for k in range(3)]
        late = p.add_res("rl", hours=std_hours(780, 1260), leaves=[(start, start + timedelta(days=rng.choice([1, 2, 9])))]) if maxgap_shape else None
        if not alap:
            a = p.add_task("a", effort=G * rng.randint(6, 16), alloc=[rs[0]])
            b = p.add_task("b", effort=G * rng.randint(1, 4), alloc=[rs[1]])
            c = p.add_task("c", effort=G * rng.randint(2, 9), alloc=[rs[2]]) if rng.random() < 0.5 else None
            deps = [(a, False, G * rng.choice([0, 0, 1])), (b, rng.random() < 0.2, G * rng.choice([8, 24, 30]))]
            if c is not None:
                deps.append((c, False, G * rng.choice([0, 4, 12])))
            if rng.random() < 0.4:
                # a gap in WORKING time (of the project calendar) instead of calendar time, not always whole hours
                k = rng.randrange(len(deps))
                deps[k] = (deps[k][0], False, 0, rng.choice([G, 2 * G, 3 * G, 5400, 7200, 9000, 16 * 3600]))
            if maxgap_shape:
                # the successor must start within a maximum gap after one predecessor: the engine starts that predecessor
                # late on purpose (outside the reference rule, `Plain`); bookings, efforts, dates and edges are still judged
                k = rng.randrange(len(deps))
                if not deps[k][1] and len(deps[k]) == 3:
                    deps[k] = (deps[k][0], False, deps[k][2], 0, deps[k][2] + G * rng.choice([0, 1, 8, 24]))
            rng.shuffle(deps)
            # (the engine delays the predecessor by an estimate: the first shift of the successor's resource)
            p.add_task("t", effort=G * rng.randint(1, 6), alloc=[late if (late is not None and rng.random() < 0.7) else rng.choice(rs)], deps=deps)
            if rng.random() < 0.5:
                p.add_task("m", milestone=True, deps=list(reversed(deps)))
        else:
            t = p.add_task("t", effort=G * rng.randint(1, 6), alloc=[rng.choice(rs)])
            ends = [start + timedelta(days=rng.randint(18, 22), hours=17), start + timedelta(days=rng.randint(24, 30), hours=rng.choice([12, 17]))]
            succs = []
            for k, (nm, eff) in enumerate((("x", rng.randint(1, 3)), ("y", rng.randint(6, 14)), ("z", rng.randint(2, 5)))):
                if k == 2 and rng.random() < 0.5:
                    break
                sx = p.add_task(nm, effort=G * eff, alloc=[rs[k]], deps=[(t, False, G * rng.choice([0, 2, 10, 30]))])
                sx.end = rng.choice(ends)
                succs.append(sx)
        out.append(("gapb%04d" % i, p))
    return out


def year_end(rng, n):
    """C02 / C05 / C14: projects that run over New Year (incl. the 53-week year 2020 and years whose 1 January is not a
    Monday: the ISO week of New Year belongs to two calendar years): global vacations and resource leaves over the holidays,
    resources with hours of their own, weekly limits counted in the week that straddles the year."""
    out = []
    for i in range(n):
        G = rng.choice([3600, 3600, 1800])
        year = rng.choice([2024, 2025, 2020, 2026, 2023])
        start = datetime(year, 12, rng.randint(8, 20))
        vac = []
        a = datetime(year, 12, rng.choice([21, 23, 24, 27, 30, 31]))
        b = datetime(year + 1, 1, rng.choice([1, 2, 3, 6, 9]))
        if rng.random() < 0.2:
            b = datetime(year + 1, 2, rng.choice([1, 2, 5]))      # a long shutdown: all of January lies strictly inside it
        if rng.random() < 0.8:
            vac.append((a, b))
        gl = [(datetime(year + 1, 1, 1), None)] if rng.random() < 0.4 else []
        p = Proj(start=start, G=G, length="+12w", vac=vac, gleaves=gl)
        rs = []
        for k in range(rng.randint(1, 3)):
            hours = rng.choice([None, std_hours(480, 960), std_hours(540, 1080, range(6)), {d: [(1320, 360)] for d in range(5)}, std_hours(360, 840, range(7))])
            leaves = []
            if rng.random() < 0.4:
                l0 = datetime(year, 12, rng.randint(27, 31))
                leaves.append((l0, l0 + timedelta(days=rng.randint(2, 9))))
            lim = [("w", 3600 * rng.choice([8, 16, 20]))] if rng.random() < 0.4 else []
            rs.append(p.add_res("r%d" % k, hours=hours, leaves=leaves, limits=lim))
        ts = []
        for k in range(rng.randint(2, 5)):
            deps = [(rng.choice(ts), False, rng.choice([0, 0, G, 86400]))] if ts and rng.random() < 0.4 else []
            ts.append(p.add_task("t%d" % k, effort=G * rng.randint(8, 90), alloc=[rng.choice(rs)], deps=deps, prio=rng.choice([None, 300, 700])))
        out.append(("ny%04d" % i, p))
    return out


def group_hours(rng, n):
    """C15 (shift reference <-> inline hours), C02, C13: resource groups that declare working hours, inline or through a shift,
    inherited by members that declare none; other members with hours / a shift of their own; hours unlike the project default."""
    out = []
    for i in range(n):
        G = rng.choice([3600, 1800])
        start = datetime(2025, 3, 3)
        p = Proj(start=start, G=G, length="+4w")
        people = []
        for g in range(rng.randint(1, 2)):
            gh = rng.choice([std_hours(420, 900), std_hours(720, 1200, range(6)), {d: [(420, 660), (720, 960)] for d in range(5)}, {d: [(1320, 360)] for d in range(5)}])
            grp = p.add_res("g%d" % g, shift=p.add_shift("sh%d" % g, gh)) if rng.random() < 0.5 else p.add_res("g%d" % g, hours=gh)
            sub = p.add_res("g%ds" % g, parent=grp) if rng.random() < 0.3 else grp
            for k in range(rng.randint(1, 3)):
                kind = rng.choice(["inherit", "inherit", "own", "ownshift"])
                kw = {}
                if kind == "own":
                    kw["hours"] = std_hours(540, 1020)
                elif kind == "ownshift":
                    kw["shift"] = p.add_shift("own%d%d" % (g, k), std_hours(480, 960, range(6)))
                people.append(p.add_res("m%d%d" % (g, k), parent=sub, **kw))
        ts = []
        for k in range(rng.randint(2, 5)):
            ts.append(p.add_task("t%d" % k, effort=G * rng.randint(2, 30), alloc=[rng.choice(people)],
                                 deps=[(rng.choice(ts), False, 0)] if ts and rng.random() < 0.5 else []))
        out.append(("ghrs%04d" % i, p))
    return out


def group_matrix(rng, n):
    """C02 (exhaustive over a small attribute matrix instead of sampled): a three-level resource tree top > sub > member; on
    every level the working time is declared inline, through a shift (with or without leaves of the shift), or not at all, and
    every level may be on leave; project default hours declared or not.  3 x 3 x 3 x 2^3 x 2 = 432 projects (n caps the number,
    taken evenly), one task per project that needs two weeks of the member."""
    import itertools
    combos = list(itertools.product(["none", "inline", "shift"], ["none", "inline", "shiftlv"], ["none", "inline", "shift"],
                                    [False, True], [False, True], [False, True], [False, True]))
    # ... x who declares a time zone / an efficiency (top group, member, both, nobody): drawn per project, all 16 kinds occur
    extra = list(itertools.product([None, "Asia/Tokyo"], [None, "America/New_York"], ["1", "0.5"], ["1", "2"]))
    if n < len(combos):
        step = len(combos) / float(n)
        combos = [combos[int(k * step)] for k in range(n)]
    hours_of = {"top": std_hours(420, 900), "sub": std_hours(720, 1200, range(6)), "mem": {d: [(540, 780), (840, 1080)] for d in range(5)}}
    out = []
    for i, (ht, hs, hm, lt, ls, lm, dflt) in enumerate(combos):
        start = datetime(2025, 3, 3)
        p = Proj(start=start, G=3600, length="+6w")
        if dflt:
            p.default_hours = std_hours(600, 1140)

        def mk(name, kind, parent, leave_day):
            kw = {}
            if kind == "inline":
                kw["hours"] = hours_of[name]
            elif kind in ("shift", "shiftlv"):
                sl = [(start + timedelta(days=3), start + timedelta(days=5))] if kind == "shiftlv" else []
                kw["shift"] = p.add_shift("sh_" + name, hours_of[name], leaves=sl)
            r = p.add_res(name, parent=parent, **kw)
            if leave_day is not None:
                r.leaves.append((start + timedelta(days=leave_day), start + timedelta(days=leave_day + 2)))
            return r
        top = mk("top", ht, None, 1 if lt else None)
        sub = mk("sub", hs, top, 8 if ls else None)
        mem = mk("mem", hm, sub, 10 if lm else None)
        other = p.add_res("peer", parent=sub)            # inherits everything
        tz_top, tz_mem, eff_top, eff_mem = extra[(i * 7 + i // 16) % len(extra)]
        top.tz, mem.tz = tz_top, tz_mem
        top.eff, mem.eff = Fraction(eff_top), Fraction(eff_mem)
        p.add_task("work", effort=3600 * 40, alloc=[mem])
        p.add_task("more", effort=3600 * 24, alloc=[other])
        out.append(("gmx%04d" % i, p))
    return out


def teams_alts(rng, n):
    """C03: team allocations (same instants), alternatives (exactly one candidate set), sub-slot efforts."""
    out = []
    for i in range(n):
        G = rng.choice([3600, 1800])
        start = datetime(2024, 6, 3)
        p = Proj(start=start, G=G, length="+3w")
        rs = [p.add_res("r%d" % k, hours=rng.choice([None, None, std_hours(480, 960), std_hours(600, 1080)]))
              for k in range(rng.randint(2, 4))]
        ts = []
        if rng.random() < 0.5:
            for k, r in enumerate(rs):
                if rng.random() < 0.8:
                    p.add_task("w%d" % k, effort=60 * rng.choice([10, 15, 20, 30, 40, 45, 50]) + G * rng.choice([0, 0, 1]), alloc=[r], prio=900)
        for k in range(rng.randint(2, 5)):
            unit = rng.choice([G, G // 2, G // 4, G // 3])
            if unit % 60:
                unit = G
            effort = unit * rng.randint(1, 12)
            mode = rng.random()
            alloc = [rng.choice(rs)]
            alt = []
            if mode < 0.45:
                alloc = rng.sample(rs, rng.randint(2, min(3, len(rs))))
            elif mode < 0.7:
                others = [r for r in rs if r is not alloc[0]]
                alt = rng.sample(others, rng.randint(1, len(others))) if rng.random() < 0.5 else [rng.choice(others)]
            deps = [(rng.choice(ts), False, rng.choice([0, 0, G // 2 if (G // 2) % 60 == 0 else 0]))] if ts and rng.random() < 0.5 else []
            lim = [("d", 3600 * rng.choice([3, 5, 7]), None)] if (len(alloc) > 1 and rng.random() < 0.3) else []
            ts.append(p.add_task("t%d" % k, effort=effort, alloc=alloc, alt=alt, deps=deps, prio=rng.choice([None, 300, 700]), limits=lim))
        out.append(("team%04d" % i, p))
    return out


# ======================================================================================
# Rendering of a bare abstract project (as TLC prints it from the MC universes)
# ======================================================================================
def render_abstract(A, start=datetime(2024, 1, 1), length="+1w"):
    """.tjp text of an abstract project record (tasks/res as in the trace format).  The project
    start must have minute-of-week A['mow'] (2024-01-01 is a Monday 00:00 -> mow 0)."""
    assert start.weekday() * 1440 + start.hour * 60 + start.minute == A["mow"]
    G = A["G"]
    L = ['project p "P" %s %s {' % (fmt_date(start), length), '  timezone "UTC"', '  timeformat "%Y-%m-%d %H:%M"']
    if G != 3600:
        L.append("  timingresolution %s" % fmt_dur(G))
    if A.get("alap"):
        L.append("  scheduling alap")
    L.append("}")
    for a, b in A.get("vac", []):
        L.append('vacation "v" %s - %s' % (fmt_date(start + timedelta(seconds=a)), fmt_date(start + timedelta(seconds=b))))
    for a, b in A.get("gleaves", []):
        L.append('leaves holiday "h" %s - %s' % (fmt_date(start + timedelta(seconds=a)), fmt_date(start + timedelta(seconds=b))))
    res, tasks = A["res"], A["tasks"]

    def short(n):
        return n.split(".")[-1]

    def rres(i, ind):
        r = res[i]
        L.append('%sresource %s "%s" {' % (ind, short(r["name"]), short(r["name"])))
        i2 = ind + "  "
        eff = Fraction(r["effN"], r["effD"])
        if eff != 1:
            L.append("%sefficiency %s" % (i2, fmt_eff(eff)))
        if r.get("tzname"):
            L.append('%stimezone "%s"' % (i2, r["tzname"]))
        if r["cal"] == "hours":
            for d, ivs in enumerate(r["hours"]):
                if ivs:
                    L.append("%sworkinghours %s %s" % (i2, DAYS[d], ", ".join(
                        "%02d:%02d - %02d:%02d" % (a // 60, a % 60, b // 60, b % 60) for a, b in ivs)))
        for a, b in r["leaves"]:
            L.append("%sleaves annual %s - %s" % (i2, fmt_date(start + timedelta(seconds=a)), fmt_date(start + timedelta(seconds=b))))
        if r["limits"]:
            L.append("%slimits { %s }" % (i2, " ".join(
                "%s %s" % ("dailymax" if x["kind"] == "d" else "weeklymax", fmt_limit(x["valSec"])) for x in r["limits"])))
        for j, k in enumerate(res):
            if k["parent"] == i + 1:
                rres(j, i2)
        L.append("%s}" % ind)
    for i, r in enumerate(res):
        if r["parent"] == 0:
            rres(i, "")

    def rtask(i, ind):
        t = tasks[i]
        L.append('%stask %s "%s" {' % (ind, short(t["name"]), short(t["name"])))
        i2 = ind + "  "
        if t["effort"]:
            L.append("%seffort %s" % (i2, fmt_dur(t["effort"])))
        if t["milestone"]:
            L.append("%smilestone" % i2)
        if t["alloc"]:
            s = "%sallocate %s" % (i2, ", ".join(short(res[r - 1]["name"]) for r in t["alloc"]))
            if t["alt"]:
                s += " { alternative %s }" % ", ".join(short(res[r - 1]["name"]) for r in t["alt"])
            L.append(s)
        if t["prio"] != 500:
            L.append("%spriority %d" % (i2, t["prio"]))
        if t.get("expl"):
            L.append("%sscheduling %s" % (i2, "asap" if t["fwd"] else "alap"))
        if t["pin"] >= 0:
            L.append("%sstart %s" % (i2, fmt_date(start + timedelta(seconds=t["pin"]))))
        if t["pinEnd"] >= 0:
            L.append("%send %s" % (i2, fmt_date(start + timedelta(seconds=t["pinEnd"]))))
        for d in t["deps"]:
            opts = []
            if d["gap"]:
                opts.append("gapduration %s" % fmt_gap(d["gap"]))
            if d["onstart"]:
                opts.append("onstart")
            L.append("%sdepends %s%s" % (i2, tasks[d["p"] - 1]["name"], " { %s }" % " ".join(opts) if opts else ""))
        if t["limits"]:
            L.append("%slimits { %s }" % (i2, " ".join(
                "%s %s%s" % ("dailymax" if x["kind"] == "d" else "weeklymax", fmt_limit(x["valSec"]),
                             " { resources %s }" % short(res[x["res"] - 1]["name"]) if x["res"] else "") for x in t["limits"])))
        for j, k in enumerate(tasks):
            if k["parent"] == i + 1:
                rtask(j, i2)
        L.append("%s}" % ind)
    for i, t in enumerate(tasks):
        if t["parent"] == 0:
            rtask(i, "")
    return "\n".join(L) + "\n"


# ======================================================================================
# Meaning-preserving transformations (C14 week shifts, C15 spellings) on a Proj
# ======================================================================================
import copy as _copy
import re


def clone(p):
    return _copy.deepcopy(p)


def effective_rates(p):
    """full id -> rate of every resource by the reference semantics: own rate, else the nearest enclosing group's, else the global one."""
    out = {}
    for r in p.res:
        x = r
        while x is not None and x.rate is None:
            x = x.parent
        rate = x.rate if x is not None else p.global_rate
        out[p.full(r)] = float(rate) if rate is not None else 0.0
    return out


def shifted(p, weeks):
    """Every date of the project moved by the same whole number of weeks."""
    q = clone(p)
    d = timedelta(weeks=weeks)

    def sh(x):
        return x + d if x is not None else None
    q.start = sh(q.start)
    q.vac = [(sh(a), sh(b)) for a, b in q.vac]
    q.gleaves = [(sh(a), sh(b)) for a, b in q.gleaves]
    q.shift_leaves = {n: [(sh(a), sh(b)) for a, b in lv] for n, lv in q.shift_leaves.items()}
    for r in q.res:
        r.leaves = [(sh(a), sh(b)) for a, b in r.leaves]
        r.vacations = [(sh(a), sh(b)) for a, b in r.vacations]
        r.bookings = [(sh(a), s) for a, s in r.bookings]
    for t in q.tasks:
        t.start = sh(t.start)
        t.end = sh(t.end)
        for ov in t.scen.values():
            for k in ("start", "end"):
                if k in ov:
                    ov[k] = sh(ov[k])
    return q


NASTY = ["rev", "a", "ab", "abc", "task", "t", "t1", "t10", "x_rev", "Rev2", "end_", "start_", "res", "r", "r1", "r10", "p", "plan",
         "milestone_", "depends_", "m", "mm", "_a", "A", "aA", "z9", "shift_", "proj", "monday", "sunrise", "friday_crew", "satellite", "tues", "wedge"]


def renamed(p, rng, reuse_across_parents=False):
    """Consistent renaming of task / resource / shift identifiers (names that are prefixes of each other,
    contain 'rev', differ only in case ...).  With reuse_across_parents the same leaf id is used again
    under different containers (ids only have to be unique among siblings)."""
    q = clone(p)
    pool = list(NASTY)
    rng.shuffle(pool)
    used = set()

    def fresh(siblings_used):
        for n in pool:
            if n not in siblings_used:
                return n
        k = 0
        while "n%d" % k in siblings_used:
            k += 1
        return "n%d" % k
    # resources and shifts share one global id space (resources are looked up by short id)
    glob = set()
    for r in q.res:
        n = fresh(glob)
        glob.add(n)
        r.name = n
    newshifts = {}
    for r in q.res:
        if r.shift and r.shift not in newshifts:
            n = fresh(glob)
            glob.add(n)
            newshifts[r.shift] = n
    q.shifts = {newshifts.get(k, k): v for k, v in q.shifts.items()}
    q.shift_leaves = {newshifts.get(k, k): v for k, v in q.shift_leaves.items()}
    for r in q.res:
        if r.shift:
            r.shift = newshifts[r.shift]
    # tasks: unique among siblings is enough, but keep them globally unique to allow absolute references by first id
    tglob = set()
    if not reuse_across_parents:
        for t in q.tasks:
            n = fresh(tglob)
            tglob.add(n)
            t.name = n
        return q
    # ids only have to be unique among siblings: every container starts again with the same short list, which also holds
    # the ids of the top-level tasks (an absolute path starts at a TOP-LEVEL task, whatever is called the same further down)
    tops = [t for t in q.tasks if t.parent is None]
    for t in tops:
        n = fresh(tglob)
        tglob.add(n)
        t.name = n
    inner_pool = list(pool)
    rng.shuffle(inner_pool)

    def walk(c):
        used_here = set()
        for k in c.kids:
            n = next((x for x in inner_pool if x not in used_here), None) or "k%d" % len(used_here)
            used_here.add(n)
            k.name = n
            walk(k)
    for t in tops:
        walk(t)
    return q


def to_precedes(p, rng):
    """Express plain finish-to-start edges between leaves as 'precedes' on the predecessor."""
    q = clone(p)
    for t in q.tasks:
        keep = []
        for d in t.deps:
            if not d[1] and not d[2] and not t.kids and not d[0].kids and rng.random() < 0.7:
                d[0].precedes.append(t)
            else:
                keep.append(d)
        t.deps = keep
    return q


def swap_shift_inline(p):
    """Resources with inline hours get a shift instead and vice versa."""
    q = clone(p)
    k = 0
    for r in q.res:
        if r.shift and r.kids and q.shift_leaves.get(r.shift):
            continue        # a group's shift with leaves: the leaves follow the shift (only to those who work it), not the group
        if r.shift:
            r.hours = q.shifts[r.shift]
            r.leaves = r.leaves + list(q.shift_leaves.get(r.shift, []))      # the shift's leaves come along
            r.shift = None
        elif r.hours is not None and r.hours:
            name = "sh_%d" % k
            k += 1
            q.shifts[name] = r.hours
            r.shift = name
            r.hours = None
    q.shifts = {n: h for n, h in q.shifts.items() if any(r.shift == n for r in q.res)}
    q.shift_leaves = {n: v for n, v in q.shift_leaves.items() if n in q.shifts}
    return q


def with_comments(text, rng):
    out = []
    for line in text.splitlines():
        x = rng.random()
        if x < 0.15:
            out.append("# shell comment with task t0 { effort 1h } inside")
        elif x < 0.3:
            out.append("// c++ comment depends !t0")
        elif x < 0.4:
            out.append("/* block comment\n   spanning lines: resource r0 \"x\" {}\n*/")
        elif x < 0.5:
            out.append("")
        ind = "   " * rng.randint(0, 2)
        if line.startswith("project") or "timeformat" in line:
            out.append(line)
        else:
            out.append(ind + line.replace(" {", "   {" if rng.random() < 0.3 else " {") + ("  # trailing" if rng.random() < 0.2 else ""))
    return "\n".join(out) + "\n"


def with_macros(text, rng):
    """Move whole attribute lines into macros (with and without an argument)."""
    lines = text.splitlines()
    macros = []
    out = []
    k = 0
    skip = False
    for n, line in enumerate(lines):
        s = line.strip()
        if skip:
            skip = False
            continue
        nxt = lines[n + 1].strip() if n + 1 < len(lines) else ""
        plain = lambda x: not any(c in x for c in ("#", "//", "/*", "{", "$"))
        if s.startswith("depends ") and plain(s) and rng.random() < 0.5:
            # a list passed as ONE argument (no blanks): `${m !a,!!b}` is `depends !a,!!b`
            refs = [s.split(None, 1)[1].strip()]
            if nxt.startswith("depends ") and plain(nxt):
                refs.append(nxt.split(None, 1)[1].strip())
                skip = True
            name = "m%d" % k
            k += 1
            macros.append("macro %s [ depends $1 ]" % name)
            out.append(line.replace(s, "${%s %s}" % (name, ",".join(r.replace(" ", "") for r in refs))))
        elif s.startswith("allocate ") and plain(s) and "," in s and rng.random() < 0.5:
            name = "m%d" % k
            k += 1
            macros.append("macro %s [ allocate $1 ]" % name)
            out.append(line.replace(s, "${%s %s}" % (name, s.split(None, 1)[1].replace(" ", ""))))
        elif (s.startswith("effort ") or s.startswith("priority ") or s.startswith("allocate ")) and "{" not in s and rng.random() < 0.5:
            name = "m%d" % k
            k += 1
            if s.startswith("effort ") and rng.random() < 0.5:
                macros.append("macro %s [ effort $1 ]" % name)
                out.append(line.replace(s, "${%s %s}" % (name, s.split()[1])))
            else:
                macros.append("macro %s [ %s ]" % (name, s))
                out.append(line.replace(s, "${%s}" % name))
        else:
            out.append(line)
    # macro definitions go after the project header block
    idx = next(i for i, l in enumerate(out) if l.split("#")[0].strip() == "}")      # the closer may carry a trailing comment
    return "\n".join(out[:idx + 1] + macros + out[idx + 1:]) + "\n"


def with_macro_mentions(text, rng):
    """Comments that talk about the macros of a text that has some (and about the project header): a comment is a comment,
    whatever it quotes -- a definition, a call, an old header, an 'as of now' date."""
    out = []
    names = re.findall(r"^macro (\w+) \[", text, re.M)
    head_done = False
    for line in text.splitlines():
        if line.startswith("project ") and not head_done:
            head_done = True
            if rng.random() < 0.5:
                out.append('# copied from: project old "Old" 2019-01-07 +1m   (as of now 2019-01-08)')
            if rng.random() < 0.3:
                out.append("/* now 2018-05-05 */")
        m = re.match(r"^macro (\w+) \[", line)
        out.append(line)
        if m and rng.random() < 0.6:
            out.append(rng.choice(["# macro %s [ effort 999h ]", "/* macro %s [ priority 1 ] */", "// the macro %s [see above] is used below",
                                   "   # macro %s [ allocate nobody ]"]) % m.group(1))
        elif names and "${" in line and rng.random() < 0.4:
            out.append("%s# was: ${%s}" % (" " * rng.randint(0, 4), rng.choice(names)))
    return "\n".join(out) + "\n"


# ======================================================================================
# C11: infeasible but grammatical projects, and corrupted texts
# ======================================================================================
def infeasible(rng, n):
    out = []
    for i in range(n):
        G = rng.choice([3600, 3600, 1800])
        start = datetime(2024, 7, 1)
        alap = rng.random() < 0.2
        p = Proj(start=start, G=G, length=rng.choice(["+1w", "+2w", "+3d", "+1d"]), alap=alap)
        rs = [p.add_res("r%d" % k) for k in range(rng.randint(1, 2))]
        never = p.add_res("never", leaves=[(start, start + timedelta(days=900))])
        grp = p.add_res("grp")
        p.add_res("m0", parent=grp)
        room = p.add_res("room")
        room.eff_text = rng.choice(["0.0", "0"])       # a room / licence: the implementation treats efficiency 0 as 1 (D19)
        ts = []
        nt = rng.randint(2, 6)
        cont = p.add_task("box") if rng.random() < 0.4 else None
        for k in range(nt):
            kind = rng.choice(["plain", "plain", "never", "zero", "huge", "noalloc", "late", "early_end", "late_end", "ms", "group", "preleave",
                               "alt_never", "alt_huge", "alt_late", "room", "room_alt", "alt_room", "room_team", "inverted", "span"])
            kw = dict(effort=G * rng.randint(1, 9), alloc=[rng.choice(rs)])
            if kind == "never":
                kw["alloc"] = [never]
            elif kind == "zero":
                kw["effort"] = 0
            elif kind == "huge":
                kw["effort"] = 3600 * rng.choice([400, 900, 2000])
            elif kind == "noalloc":
                kw["alloc"] = []
            elif kind == "late":
                kw["start"] = start + timedelta(days=rng.choice([30, 400]))
            elif kind == "early_end":
                kw["end"] = start + timedelta(hours=rng.choice([1, 10]))
                kw["mode"] = "alap"
            elif kind == "alt_never":
                kw["alloc"] = [never]
                kw["alt"] = [rng.choice(rs)]
            elif kind == "alt_huge":
                kw["effort"] = 3600 * rng.choice([60, 400, 900])
                kw["alt"] = [never] if rng.random() < 0.5 else [rng.choice(rs)]
            elif kind == "alt_late":
                late = p.add_res("late%d" % k, leaves=[(start, start + timedelta(days=rng.choice([6, 13, 20])))])
                kw["alloc"] = [late]
                kw["alt"] = [rng.choice(rs)]
                kw["effort"] = 3600 * rng.choice([8, 40, 80])
            elif kind == "late_end":
                kw["end"] = start + timedelta(days=rng.choice([40, 400]))
                kw["mode"] = "alap"
            elif kind == "preleave":
                pre = p.add_res("pre%d" % k, leaves=[(start - timedelta(days=rng.choice([3, 40, 700])), start + timedelta(days=rng.choice([1, 3])))])
                kw["alloc"] = [pre]
            elif kind == "room":
                kw["alloc"] = [room]
            elif kind == "room_alt":
                kw["alloc"] = [room]
                kw["alt"] = [rng.choice(rs)]
            elif kind == "alt_room":
                kw["alt"] = [room] if rng.random() < 0.5 else [rng.choice(rs), room]
            elif kind == "room_team":
                kw["alloc"] = [rng.choice(rs), room]
                if rng.random() < 0.5:
                    kw["flags"] = ["contiguous"] if False else []
            elif kind == "ms":
                kw = dict(effort=0, alloc=[], milestone=True)
            elif kind == "inverted":       # both dates given, the end before the start: no schedule has start <= end
                a = start + timedelta(hours=rng.choice([30, 60]))
                kw = dict(effort=0, alloc=[], start=a, end=a - timedelta(hours=rng.choice([1, 20])))
            elif kind == "span":           # both dates given in order: a fixed period
                a = start + timedelta(hours=rng.choice([9, 33]))
                kw = dict(effort=0, alloc=[], start=a, end=a + timedelta(hours=rng.choice([0, 2, 30])))
            elif kind == "group":
                kw["alloc"] = [grp]
            t = p.add_task("t%d" % k, parent=cont if (cont and rng.random() < 0.5) else None, **kw)
            ts.append(t)
        # dependency patterns incl. cycles and self-dependencies
        for t in ts:
            x = rng.random()
            if x < 0.15:
                t.deps.append((t, False, 0))                       # self
            elif x < 0.55 and len(ts) > 1:
                u = rng.choice([u for u in ts if u is not t])
                if rng.random() < 0.2:
                    t.deps.append((u, False, 0, rng.choice([3600 * 4, 3600 * 40, 3600 * 400, 5400, 1800, 9000])))      # gaplength (working time), also not whole hours
                else:
                    t.deps.append((u, rng.random() < 0.2, rng.choice([0, G, 86400 * 30])))
        if len(ts) >= 2 and rng.random() < 0.4:
            a, b = rng.sample(ts, 2)
            a.deps.append((b, False, 0))
            b.deps.append((a, False, 0))                           # 2-cycle
        if cont is not None and rng.random() < 0.3:
            inner = [t for t in ts if t.parent is cont]
            if inner:
                cont.deps.append((rng.choice(inner), False, 0))    # container depends on its own child
        out.append(("inf%04d" % i, p))
    return out


def many_scenarios(rng, n):
    """C11 (cost proportional to size): small projects with limits on containers / groups (inherited by everything
    below) under 4-5 scenarios, nested and side by side, with a few scenario-specific efforts."""
    out = []
    tries = 0
    while len(out) < n and tries < 50 * n:
        tries += 1
        pid, p = limits_profile(rng, 1)[0]
        if not any(t.kids and t.limits for t in p.tasks) and not any(r.kids and r.limits for r in p.res):
            continue
        p.scenarios = [("plan", [("s1", [("s2", [("s3", [])] if rng.random() < 0.5 else [])]), ("s4", [])])]
        for t in p.tasks:
            if not t.kids and t.effort and rng.random() < 0.4:
                t.scen[rng.choice(["s1", "s2", "s4"])] = {"effort": max(p.G, t.effort // 2 // p.G * p.G)}
        out.append(("scen%04d" % len(out), p))
    return out


def wide_groups(rng, n):
    """C11 (cost proportional to size): a resource group that declares working hours (inline or through a shift) or limits,
    with 6-10 people below it who inherit them."""
    out = []
    for i in range(n):
        G = 3600
        p = Proj(start=datetime(2025, 3, 3), G=G, length="+4w")
        if rng.random() < 0.7:
            p.scenarios = [("plan", [("delayed", [])])]          # every inherited attribute exists once per scenario
        hours = rng.choice([std_hours(420, 900), std_hours(600, 1140, range(6))])
        kind = rng.choice(["shift", "inline", "limits"])
        if kind == "shift":
            grp = p.add_res("grp", shift=p.add_shift("early", hours))
        elif kind == "inline":
            grp = p.add_res("grp", hours=hours)
        else:
            grp = p.add_res("grp", limits=[("d", 6 * 3600)])
        people = [p.add_res("m%d" % k, parent=grp) for k in range(rng.randint(6, 10))]
        for k in range(rng.randint(3, 6)):
            p.add_task("t%d" % k, effort=G * rng.randint(2, 20), alloc=[rng.choice(people)])
        out.append(("wide%04d" % i, p))
    return out


def corruptions(text, rng, k):
    """k corrupted variants of a valid text: token deletion / duplication / swap, truncation, brace damage,
    absurd numbers and dates."""
    import re
    toks = re.findall(r'"[^"]*"|\S+', text)
    lines = text.splitlines()
    out = []
    for n_done in range(k):
        kind = rng.choice(["del", "dup", "swap", "trunc", "brace", "num", "date", "word", "macro", "nodur", "macro_open", "brace_end"])
        if n_done == 0:
            kind = "macro_open"         # every text gets one variant that cannot be grammatical
        if kind in ("del", "dup", "swap") and len(toks) > 3:
            t = list(toks)
            i = rng.randrange(len(t) - 1)
            if kind == "del":
                del t[i]
            elif kind == "dup":
                t.insert(i, t[i])
            else:
                t[i], t[i + 1] = t[i + 1], t[i]
            out.append((kind, " ".join(t) + "\n"))
        elif kind == "trunc":
            n = rng.randrange(1, max(2, len(lines)))
            out.append((kind, "\n".join(lines[:n]) + "\n"))
        elif kind == "brace":
            idx = [m.start() for m in re.finditer(r"[{}]", text)]
            if idx:
                j = rng.choice(idx)
                out.append((kind, text[:j] + rng.choice(["", "{{", "}}", "}"]) + text[j + 1:]))
        elif kind == "num":
            ms = list(re.finditer(r"\b\d+(h|min|d|w)\b", text))
            if ms:
                m = rng.choice(ms)
                out.append((kind, text[:m.start()] + rng.choice(["0", "99999", "0.0001", "1e9", "-5"]) + m.group(1) + text[m.end():]))
        elif kind == "date":
            ms = list(re.finditer(r"\d{4}-\d{2}-\d{2}(-\d{2}:\d{2})?", text))
            if ms:
                m = rng.choice(ms)
                out.append((kind, text[:m.start()] + rng.choice(["1970-01-01", "2999-12-31", "2024-02-30", "2024-13-01", "0000-00-00", "2024-01-01-25:61"]) + text[m.end():]))
        elif kind == "word":
            ms = list(re.finditer(r"\b(depends|allocate|effort|task|resource|priority|start|end|limits|dailymax)\b", text))
            if ms:
                m = rng.choice(ms)
                out.append((kind, text[:m.start()] + rng.choice(["precedes", "duration", "length", "scheduling alap", "flags", "", "milestone"]) + text[m.end():]))
        elif kind == "nodur":
            out.append((kind, re.sub(r'(project\s+\S+\s+"[^"]*"\s+\S+)\s+\+\d+[dwmy]', r'\1', text, count=1)))
        elif kind == "macro_open":
            # a macro definition that is never closed (a lost ']', a file cut inside a macro body): everything after it is gone
            cut = rng.randrange(1, max(2, len(lines)))
            while cut < len(lines) and (lines[cut - 1].rstrip().endswith(",") or lines[cut][:1] in (" ", "\t")):
                cut += 1            # between top-level statements
            body = rng.choice(['task zz "zz" { effort 1h', "effort 3h", 'note "x"', ""])
            out.append((kind, "\n".join(lines[:cut] + ["macro lost [ " + body] + lines[cut:]) + "\n"))
        elif kind == "brace_end":
            j = text.rstrip().rfind("}")
            if j > 0:
                out.append((kind, text[:j] + text[j + 1:]))
        elif kind == "macro":
            out.append((kind, text + rng.choice(["\n${undefined_macro}\n", "\nmacro loop [ ${loop} ]\n${loop}\n", "\nmacro a [ ${b} ]\nmacro b [ ${a} ]\ntask zz \"zz\" { ${a} }\n",
                                                 "\nmacro big [ ${big} ${big} ]\n${big}\n"])))
    return out



def cannot_be_grammatical(text):
    """Independent lexical oracle (no parser involved): braces or macro brackets that do not balance outside strings and
    comments.  Such a text has no parse; accepting it means that part of it was silently dropped."""
    depth_b = depth_s = 0
    i, n = 0, len(text)
    while i < n:
        c = text[i]
        if c == '"':
            j = text.find('"', i + 1)
            if j < 0:
                return True
            i = j + 1
            continue
        if c == "#" or text.startswith("//", i):
            j = text.find("\n", i)
            i = n if j < 0 else j
            continue
        if text.startswith("/*", i):
            j = text.find("*/", i + 2)
            if j < 0:
                return True
            i = j + 2
            continue
        if c == "{":
            depth_b += 1
        elif c == "}":
            depth_b -= 1
        elif c == "[":
            depth_s += 1
        elif c == "]":
            depth_s -= 1
        if depth_b < 0 or depth_s < 0:
            return True
        i += 1
    return depth_b != 0 or depth_s != 0


def dup_leaf_ids(rng, n):
    """C15 / C18: the same leaf id under different containers; a join task whose predecessors are the
    namesakes (as depends or precedes), so that confusing ids for full ids changes the schedule."""
    out = []
    for i in range(n):
        G = 3600
        p = Proj(start=datetime(2025, 1, 6), G=G, length="+6w")
        rs = [p.add_res("r%d" % k) for k in range(rng.randint(2, 3))]
        names = rng.sample(["build", "test", "doc", "impl"], rng.randint(1, 3))
        conts = [p.add_task(c) for c in rng.sample(["hw", "sw", "fw", "ops"], rng.randint(2, 3))]
        kids = {}
        for c in conts:
            for nm in names:
                kids[(c.name, nm)] = p.add_task(nm, parent=c, effort=G * rng.randint(2, 40), alloc=[rng.choice(rs)])
        if rng.random() < 0.5:
            # a container nested two levels down carries the local id of a top-level container, and both have children
            # with the same ids; the nested ones refer to each other as siblings ('!id'): the reference is relative to
            # the nested container, whatever else is called like it
            top = conts[0]
            outer = p.add_task("release")
            twin = p.add_task(top.name, parent=outer)
            prev = None
            for nm_ in names + ["pack"]:
                t = p.add_task(nm_, parent=twin, effort=G * rng.randint(2, 12), alloc=[rng.choice(rs)],
                               deps=[(prev, False, rng.choice([0, G]))] if prev is not None else [])
                prev = t
            if ("pack" not in names):
                kids[(top.name, "pack")] = p.add_task("pack", parent=top, effort=G * rng.randint(20, 60), alloc=[rng.choice(rs)])
            # ... and the top-level children use the very same reference text ('!<first name>') as the nested ones
            first_top = kids[(top.name, names[0])]
            pk = kids[(top.name, "pack")]
            if pk is not first_top and not any(d[0] is first_top for d in pk.deps):
                pk.deps.append((first_top, False, rng.choice([0, G])))
        join = p.add_task("integrate", effort=G * rng.randint(4, 16), alloc=[rng.choice(rs)])
        nm = rng.choice(names)
        for c in conts:
            if rng.random() < 0.5:
                kids[(c.name, nm)].precedes.append(join)
            else:
                join.deps.append((kids[(c.name, nm)], False, 0))
        out.append(("dup%04d" % i, p))
    return out



def dup_alap(rng, n):
    """C08 / C04 backward mode: leaves with the same local id under different containers, each with a successor
    of its own at a different time; confusing local ids for full ids moves a namesake's deadline."""
    out = []
    for i in range(n):
        G = rng.choice([3600, 1800])
        start = datetime(2025, 2, 3)
        proj_alap = rng.random() < 0.6
        p = Proj(start=start, G=G, length="+8w", alap=proj_alap)
        rs = [p.add_res("r%d" % k) for k in range(rng.randint(2, 4))]
        names = rng.sample(["build", "test", "pack"], rng.randint(1, 2))
        conts = [p.add_task(c) for c in rng.sample(["alpha", "beta", "gamma", "delta"], rng.randint(2, 3))]
        for j, c in enumerate(conts):
            r = rs[j % len(rs)]
            prev = None
            for nm in names:
                t = p.add_task(nm, parent=c, effort=G * rng.randint(2, 20), alloc=[r], mode=None if proj_alap else "alap",
                               deps=[(prev, False, rng.choice([0, 0, G, 4 * G]))] if prev is not None else [])
                prev = t
            ship = p.add_task("ship", parent=c, effort=G * rng.randint(1, 6), alloc=[rng.choice(rs)], mode=None if proj_alap else "alap",
                              deps=[(prev, False, rng.choice([0, G, 8 * G]))])
            if rng.random() < 0.3:
                ship.deps = []
                prev.precedes.append(ship)
            ship.end = start + timedelta(days=rng.choice([9, 16, 23, 30, 37]) + j, hours=rng.choice([9, 12, 17]))
        out.append(("dupalap%04d" % i, p))
    return out


def container_gate(rng, n):
    """C07 / C09 / C04 (core dialect): a high-priority task waits for a container whose children have no
    dependencies of their own, while lower-priority independent tasks compete for the same resource."""
    out = []
    for i in range(n):
        G = rng.choice([3600, 1800])
        p = Proj(start=datetime(2025, 1, 6), G=G, length="+6w")
        rs = [p.add_res("r%d" % k) for k in range(rng.randint(1, 2))]
        box = p.add_task("build", prio=rng.choice([None, None, 800, 200, 650]))      # inherited by everything below that states none of its own
        inner = None
        if rng.random() < 0.6:
            inner = p.add_task("stage", parent=box, prio=rng.choice([None, None, 350]))
            if rng.random() < 0.4:
                inner = p.add_task("step", parent=inner)          # the leaves that complete `build` sit two or three levels below it
        events_only = rng.random() < 0.2
        for k in range(rng.randint(1, 3)):
            if events_only:
                # the container holds nothing but dated events (milestones the user pinned): it is complete before any work is placed
                p.add_task("c%d" % k, parent=inner if (inner and rng.random() < 0.7) else box, milestone=True,
                           start=datetime(2025, 1, 6) + timedelta(hours=rng.choice([9, 10, 33])))
                continue
            p.add_task("c%d" % k, parent=inner if (inner and rng.random() < 0.7) else box, effort=G * rng.randint(1, 10),
                       alloc=[rng.choice(rs)], prio=rng.choice([None, 500, 600]))
        if inner is not None and not inner.kids:
            if events_only:
                p.add_task("cx", parent=inner, milestone=True, start=datetime(2025, 1, 6, 9))
            else:
                p.add_task("cx", parent=inner, effort=G * 2, alloc=[rs[0]])
        rel = p.add_task("release", effort=G * rng.randint(2, 12), alloc=[rng.choice(rs)], prio=rng.choice([800, 900]),
                         deps=[(box, False, rng.choice([0, 0, G]))])
        if rng.random() < 0.5:
            grp = p.add_task("post", deps=[(box, False, 0)])
            p.add_task("notes", parent=grp, effort=G * rng.randint(1, 6), alloc=[rng.choice(rs)], prio=700)
        for k in range(rng.randint(1, 3)):
            p.add_task("chore%d" % k, effort=G * rng.randint(4, 30), alloc=[rng.choice(rs)], prio=rng.choice([300, 400]))
        if rng.random() < 0.5:
            # the container itself waits for a task that is declared LAST and ranks low, while its children have
            # edges of their own (readiness must look at inherited edges too)
            pre = p.add_task("prereq", effort=G * rng.randint(2, 8), alloc=[rng.choice(rs)], prio=rng.choice([200, 500]))
            box.deps.append((pre, False, rng.choice([0, G])))
            leaves_in = [t for t in p.ordered([box]) if not t.kids]
            outside = [t for t in p.tasks if t.name.startswith("chore")]
            if rng.random() < 0.5:
                # ... or to a task that is placed first of all: the leaves are then released by `prereq` alone, and every one
                # of them carries a `depends` of its own (which hides the list it would inherit from the container)
                spec = p.add_task("spec", effort=G * rng.randint(1, 4), alloc=[rng.choice(rs)], prio=950)
                outside = [spec]
            every = rng.random() < 0.5
            for b in leaves_in:
                if outside and (every or rng.random() < 0.6):
                    b.deps.append((rng.choice(outside), False, 0))      # own edge to a task outside the container
            for a, b in zip(leaves_in, leaves_in[1:]):
                if rng.random() < 0.4:
                    b.deps.append((a, False, 0))
        out.append(("gate%04d" % i, p))
    return out



def dst_weekend(rng, n):
    """C02: resources in DST-observing zones whose hours cover the weekend of a transition (incl. Saturday night and
    Sunday shifts), projects starting one to three days before the switch, ASAP and ALAP, so that work is booked in
    the hours right before and after the change of offset."""
    import zoneinfo
    from datetime import timezone as _tz
    zones = ["Australia/Sydney", "America/New_York", "Europe/Berlin", "Pacific/Chatham", "America/Sao_Paulo", "Europe/London",
             "America/St_Johns", "Australia/Lord_Howe", "Africa/Cairo", "America/Santiago", "Pacific/Auckland", "America/Los_Angeles"]

    def transitions(zn, year):
        z = zoneinfo.ZoneInfo(zn)
        out = []
        t = datetime(year, 1, 1, tzinfo=_tz.utc)
        last = t.astimezone(z).utcoffset()
        for _ in range(366 * 24):
            t += timedelta(hours=1)
            o = t.astimezone(z).utcoffset()
            if o != last:
                out.append(t.replace(tzinfo=None))
                last = o
        return out
    cache = {}
    out = []
    for i in range(n):
        zn = rng.choice(zones)
        year = rng.choice([2024, 2025, 2026])
        tr = cache.setdefault((zn, year), transitions(zn, year))
        if not tr:
            continue
        sw = rng.choice(tr)
        G = rng.choice([3600, 3600, 1800])
        start = (sw - timedelta(days=rng.randint(1, 3))).replace(hour=rng.choice([0, 6, 12]), minute=0, second=0, microsecond=0)
        alap = rng.random() < 0.4
        p = Proj(start=start, G=G, length="+2w", alap=alap)
        if i % 3 == 2:
            p.ptz = rng.choice(["America/New_York", "Europe/Berlin", "Asia/Tokyo", "America/Los_Angeles", "Europe/London"])      # project time is not UTC
        style = rng.choice(["all", "weekend_day", "sat_night", "sun", "nights"])
        if style == "all":
            hours = {d: [(rng.choice([360, 540]), rng.choice([1020, 1320]))] for d in range(7)}
        elif style == "weekend_day":
            hours = {5: [(540, 1020)], 6: [(540, 780)], 0: [(540, 1020)]}
        elif style == "sat_night":
            hours = {5: [(1380, 60)], 6: [(1380, 60)], 4: [(1320, 120)]}
        elif style == "sun":
            hours = {6: [(0, 1439)], 5: [(1200, 1439)]}
        else:
            hours = {d: [(1320, 360)] for d in range(7)}
        shift = None
        if rng.random() < 0.4:
            shift = p.add_shift("s0", hours)
        r = p.add_res("r0", hours=None if shift else hours, shift=shift, tz=zn)
        ts = []
        for k in range(rng.randint(1, 3)):
            t = p.add_task("t%d" % k, effort=G * rng.randint(4, 40), alloc=[r], deps=[(ts[-1], False, 0)] if ts and rng.random() < 0.6 else [])
            ts.append(t)
        if alap:
            for t in ts:
                if not any(d[0] is t for u in ts for d in u.deps):
                    t.end = (sw + timedelta(days=rng.randint(1, 3))).replace(hour=rng.choice([0, 12]), minute=0, second=0, microsecond=0)
        out.append(("dst%04d" % i, p))
    return out


def repeated_statements(k):
    """C11 (cost proportional to size): one statement kind written k times in one property; the caller runs each kind
    at k and 2k and compares the cost.  Returns [(kind, text)]; every text is an ordinary, schedulable project."""
    head = 'project p "P" 2025-01-06 +6m {\n  timezone "UTC"\n%s}\n'
    day = lambda i: (datetime(2025, 2, 1) + timedelta(days=2 * i)).strftime("%Y-%m-%d")
    rep = lambda f: "".join(f(i) for i in range(k))
    work = 'task w "W" { effort 5d allocate r1 }\n'
    out = []
    out.append(("res_vacation", head % "" + 'resource r1 "R1" {\n' + rep(lambda i: "  vacation %s\n" % day(i)) + "}\n" + work))
    out.append(("res_leaves", head % "" + 'resource r1 "R1" {\n' + rep(lambda i: "  leaves annual %s\n" % day(i)) + "}\n" + work))
    out.append(("res_booking", head % "" + 'resource r1 "R1" {\n' + rep(lambda i: '  booking "b%d" %s-10:00 +1h\n' % (i, day(i))) + "}\n" + work))
    out.append(("res_hours", head % "" + 'resource r1 "R1" {\n' + rep(lambda i: "  workinghours %s 0%d:00 - 1%d:00\n" % (DAYS[i % 5], 7 + i % 3, 5 + i % 3)) + "}\n" + work))
    out.append(("res_limits", head % "" + 'resource r1 "R1" {\n' + rep(lambda i: "  limits { dailymax %dh }\n" % (4 + i % 4)) + "}\n" + work))
    out.append(("res_flags", head % "" + "flags " + ", ".join("f%d" % i for i in range(k)) + "\n" + 'resource r1 "R1" {\n' + rep(lambda i: "  flags f%d\n" % i) + "}\n" + work))
    out.append(("grp_member_leaves", head % "" + 'resource g "G" {\n' + rep(lambda i: "  leaves annual %s\n" % day(i)) + '  resource r1 "R1" {\n' + rep(lambda i: "    vacation %s\n" % day(i + 1)) + "  }\n}\n" + work))
    out.append(("proj_leaves", head % "" + rep(lambda i: 'leaves holiday "h%d" %s\n' % (i, day(i))) + 'resource r1 "R1" {}\n' + work))
    out.append(("glob_vacation", head % "" + rep(lambda i: 'vacation "v%d" %s\n' % (i, day(i))) + 'resource r1 "R1" {}\n' + work))
    out.append(("shifts", head % "" + rep(lambda i: 'shift s%d "S%d" {\n  workinghours mon - fri 0%d:00 - 1%d:00\n}\n' % (i, i, 7 + i % 3, 5 + i % 3)) + 'resource r1 "R1" {\n  workinghours s0\n}\n' + work))
    out.append(("task_precedes_one", head % "" + 'resource r1 "R1" {}\n' + rep(lambda i: 'task a%d "A" { duration 1d precedes tgt }\n' % i) + 'task tgt "T" { effort 1d allocate r1 }\n'))
    out.append(("task_depends_many", head % "" + 'resource r1 "R1" {}\n' + rep(lambda i: 'task a%d "A" { duration 1d }\n' % i) + 'task tgt "T" {\n  effort 1d\n  allocate r1\n' + rep(lambda i: "  depends a%d\n" % i) + "}\n"))
    out.append(("task_depends_list", head % "" + 'resource r1 "R1" {}\n' + rep(lambda i: 'task a%d "A" { duration 1d }\n' % i) + 'task tgt "T" {\n  effort 1d\n  allocate r1\n  depends ' + ", ".join("a%d" % i for i in range(k)) + "\n}\n"))
    out.append(("task_allocate_many", head % "" + rep(lambda i: 'resource r%d "R" {}\n' % i) + 'task tgt "T" {\n  effort 40d\n' + rep(lambda i: "  allocate r%d\n" % i) + "}\n"))
    out.append(("task_alternatives", head % "" + rep(lambda i: 'resource r%d "R" {}\n' % i) + 'task tgt "T" {\n  effort 10d\n  allocate r0 { alternative ' + ", ".join("r%d" % i for i in range(1, max(2, k))) + " }\n}\n"))
    out.append(("task_limits", head % "" + 'resource r1 "R1" {}\ntask tgt "T" {\n  effort 5d\n  allocate r1\n' + rep(lambda i: "  limits { dailymax %dh }\n" % (4 + i % 4)) + "}\n"))
    out.append(("task_flags", head % "" + "flags " + ", ".join("f%d" % i for i in range(k)) + '\nresource r1 "R1" {}\ntask tgt "T" {\n  effort 5d\n  allocate r1\n' + rep(lambda i: "  flags f%d\n" % i) + "}\n"))
    out.append(("nested_containers", head % "" + 'resource r1 "R1" {}\n' + rep(lambda i: "  " * i + 'task c%d "C" {\n' % i) + "  " * k + 'task leaf "L" { effort 2d allocate r1 }\n' + "".join("  " * (k - 1 - i) + "}\n" for i in range(k))))
    out.append(("nested_containers_stuck", head % "" + 'resource r1 "R1" {\n  leaves annual 2025-01-01 - 2026-06-01\n}\nresource r2 "R2" {}\n' + rep(lambda i: "  " * i + 'task c%d "C" {\n' % i) + "  " * k + 'task leaf "L" { effort 2d allocate r1 }\n' + "".join("  " * (k - 1 - i) + "}\n" for i in range(k)) + 'task w "W" { effort 5d allocate r2 }\n'))
    # chains of 10 k tasks (the cost of finding predecessors / successors must not grow with the square or cube of the chain)
    n10 = 10 * k
    chain = lambda extra: "".join('task t%d "T" { effort 1h allocate r1 %s%s }\n' % (i, "depends !t%d" % (i - 1) if i else "", extra(i)) for i in range(n10))
    out.append(("chain_asap", head % "" + 'resource r1 "R1" {}\n' + chain(lambda i: "")))
    out.append(("chain_alap_anchor", head % "" + 'resource r1 "R1" {}\n' + chain(lambda i: " scheduling alap end 2025-06-27-17:00" if i == n10 - 1 else "")))
    out.append(("chain_alap_project", head % "  scheduling alap\n" + 'resource r1 "R1" {}\n' + chain(lambda i: "")))
    out.append(("independent_tasks", head % "" + rep(lambda i: 'resource q%d "Q" {}\n' % i) + "".join('task u%d "U" { effort 2h allocate q%d }\n' % (i, i % k) for i in range(n10 * 3))))
    out.append(("nested_groups", head % "" + rep(lambda i: "  " * i + 'resource g%d "G" {\n' % i) + "  " * k + 'resource r1 "R1" {}\n' + "".join("  " * (k - 1 - i) + "}\n" for i in range(k)) + work))
    out.append(("scenarios_flat", head % ('  scenario plan "Plan" {\n' + rep(lambda i: '    scenario s%d "S"\n' % i) + "  }\n") + 'resource r1 "R1" {}\n' + work))
    out.append(("reports", head % "" + 'resource r1 "R1" {}\n' + work + rep(lambda i: 'taskreport rep%d "rep%d" {\n  formats csv\n  columns id, start, end\n}\n' % (i, i))))
    out.append(("accounts_chargesets", head % "" + rep(lambda i: 'account acc%d "A"\n' % i) + 'resource r1 "R1" { rate 100 }\ntask tgt "T" {\n  effort 5d\n  allocate r1\n' + rep(lambda i: "  chargeset acc%d\n" % i) + "}\n"))
    out.append(("macros", rep(lambda i: "macro m%d [ %s ]\n" % (i, "${m%d}" % (i - 1) if i else "5d")) + head % "" + 'resource r1 "R1" {}\ntask w "W" { effort ${m%d} allocate r1 }\n' % (k - 1)))
    return out


# odd inputs in which two properties under one parent carry the same id: a reference cannot tell them apart -- no schedule may be produced
ODD_MUST_REJECT = {"dup_top_ids", "dup_nested_ids", "dup_resource_ids"}


def odd_inputs():
    """C11: small texts that are grammatical (or that the parser accepts) but combine statements in ways no fixture does:
    several allocate lines, scenario-specific duration / length, an undefined macro where a date belongs, flags without the
    attributes they qualify, unusual units in the header, astronomically large values.  Each must end as Reject or Schedule."""
    H = 'project p "P" 2024-01-01 +2w {\n  timezone "UTC"\n%s}\n'
    RES = 'resource r "R" {}\nresource r2 "R2" {}\nresource r3 "R3" {}\n'
    out = []

    def add(kind, header_extra, body, length=None):
        h = H % header_extra
        if length:
            h = h.replace("+2w", length)
        out.append((kind, h + RES + body))
    add("two_allocates_opts", "", 'task a "A" { effort 1d allocate r { alternative r2 } allocate r3 }\n')
    add("two_allocates_plain", "", 'task a "A" { effort 1d allocate r allocate r3 }\n')
    add("allocate_same_twice", "", 'task a "A" { effort 2d allocate r, r }\n')
    add("alt_is_primary", "", 'task a "A" { effort 2d allocate r { alternative r, r2 } }\n')
    add("scen_duration", '  scenario plan "Plan" { scenario s1 "S1" }\n', 'task a "A" { effort 1d allocate r s1:duration 3d }\n')
    add("scen_length", '  scenario plan "Plan" { scenario s1 "S1" }\n', 'task a "A" { effort 1d allocate r s1:length 3d }\n')
    # a candidate of an allocation that cannot deliver the effort before the slot tables end (the look-ahead that compares the
    # candidates then runs to the very last slot), while another candidate can
    out.append(("alt_primary_runs_out", 'project p "P" 2025-08-04 +3w {\n  timezone "UTC"\n}\nresource a "A" {\n  vacation 2025-08-06 - 2025-08-21\n}\n'
                'resource b "B" {\n  efficiency 0.5\n}\ntask t "T" { effort 40h allocate a { alternative b } }\n'))
    out.append(("alt_late_pin", 'project p "P" 2025-06-02 +2w {\n  timezone "UTC"\n}\nresource j "J" {}\nresource s "S" {\n  efficiency 2.0\n}\n'
                'task t "T" { effort 24h start 2025-06-12-09:00 allocate j { alternative s } }\n'))
    out.append(("alt_all_day_runs_out", 'project p "P" 2025-08-04 +1w {\n  timezone "UTC"\n}\nresource a "A" {\n  workinghours mon - sun 0:00 - 24:00\n  vacation 2025-08-05 - 2025-08-10\n}\n'
                'resource b "B" {\n  workinghours mon - sun 0:00 - 24:00\n}\ntask t "T" { effort 100h allocate a { alternative b } }\n'))
    # backward tasks with alternatives, one candidate of which never works / has too little capacity on the whole horizon
    NEV = 'resource n "N" { vacation 2024-01-01 - 2024-03-01 }\n'
    add("alap_alt_never", "", NEV + 'task a "A" { effort 2d allocate r { alternative n } scheduling alap end 2024-01-12-17:00 }\n')
    add("alap_primary_never", "", NEV + 'task a "A" { effort 2d allocate n { alternative r } scheduling alap end 2024-01-12-17:00 }\n')
    add("alap_project_alt_never", "  scheduling alap\n", NEV + 'task a "A" { effort 3d allocate r { alternative n, r2 } }\ntask b "B" { effort 1d allocate r2 depends !a }\n')
    add("alap_nobody_works", "", NEV + 'resource n2 "N2" { vacation 2024-01-01 - 2024-03-01 }\ntask a "A" { effort 2d allocate n { alternative n2 } scheduling alap end 2024-01-12-17:00 }\n')
    add("alap_alt_odd_hours", "", 'resource o "O" { workinghours mon 25:00 - 26:00 }\ntask a "A" { effort 1d allocate r { alternative o } scheduling alap end 2024-01-12-17:00 }\n')
    add("scen_duration_only", '  scenario plan "Plan" { scenario s1 "S1" }\n', 'task a "A" { s1:duration 3d }\ntask b "B" { s1:length 2d }\n')
    add("plain_duration", "", 'task a "A" { duration 3d }\ntask b "B" { length 2d depends !a }\n')
    add("undef_macro_date", "", 'task a "A" { effort 1d allocate r start ${nosuch} }\n')
    add("undef_macro_date_ms", "", 'task a "A" { start ${nosuch} }\n')
    add("undef_macro_effort", "", 'task a "A" { effort ${nosuch} allocate r }\n')
    add("contiguous_noalloc", "  workinghours mon - sun 0:00 - 24:00\n", 'task a "A" { effort 40h start 2024-01-12 flags contiguous }\n', "+1w")
    add("contiguous_alloc_late", "", 'task a "A" { effort 60h allocate r start 2024-01-11 flags contiguous }\n')
    add("resolution_zero", "  timingresolution 0min\n", 'task a "A" { effort 1d allocate r }\n')
    add("resolution_90min", "  timingresolution 90min\n", 'task a "A" { effort 1d allocate r }\n')
    add("resolution_2h", "  timingresolution 2h\n", 'task a "A" { effort 1d allocate r }\n')
    add("resolution_7min", "  timingresolution 7min\n", 'task a "A" { effort 1d allocate r }\n')
    add("length_hours", "", 'task a "A" { effort 1h allocate r }\n', "+6h")
    add("length_minutes", "", 'task a "A" { effort 1h allocate r }\n', "+300min")
    # the same astronomically large gap seen from the other end (backward mode, on-start edge, maximum gap), a working-time gap
    # counted from a milestone the user put years before the project, numbers no float can hold
    add("alap_feeds_forward", "", 'task pre "Pre" { effort 1d allocate r }\ntask anchor "Anchor" { effort 1d allocate r depends !pre scheduling alap end 2024-01-12-17:00 }\ntask other "Other" { effort 1d allocate r2 depends !pre }\n')
    add("alap_then_forward", "", 'task a "A" { effort 1d allocate r scheduling alap }\ntask b "B" { effort 1d allocate r depends !a }\n', "+4w")
    add("huge_gap_alap", "", 'task a "A" { effort 1d allocate r scheduling alap precedes !b { gapduration 4000000d } }\ntask b "B" { effort 1d allocate r scheduling alap end 2024-01-12 }\n')
    add("huge_gap_alap_onstart", "", 'task b "B" { effort 1d allocate r scheduling alap end 2024-01-12 }\ntask a "A" { effort 1d allocate r scheduling alap depends !b { onstart gapduration 4000000d } }\n')
    add("huge_gap_maxgap", "", 'task a "A" { effort 1d allocate r }\ntask b "B" { effort 1d allocate r2 depends !a { gapduration 4000000d maxgapduration 1h } }\n')
    add("gaplength_early_milestone", "", 'task n "N" { milestone start 2020-01-01 }\ntask s "S" { effort 1d allocate r depends !n { gaplength 1d } }\n')
    add("gaplength_3d_early_milestone", "", 'task n "N" { milestone start 2023-12-29 }\ntask s "S" { effort 1d allocate r depends !n { gaplength 1d } }\n')
    add("effort_400_digits", "", 'task a "A" { effort %sd allocate r }\n' % ("9" * 400))
    add("gap_400_digits", "", 'task a "A" { effort 1d allocate r }\ntask b "B" { effort 1d allocate r depends !a { gapduration %sd } }\n' % ("9" * 400))
    add("gaplength_400_digits", "", 'task a "A" { effort 1d allocate r }\ntask b "B" { effort 1d allocate r depends !a { gaplength %sd } }\n' % ("9" * 400))
    add("huge_gap", "", 'task a "A" { effort 1d allocate r }\ntask b "B" { effort 1d allocate r depends !a { gapduration 10000000d } }\n')
    add("huge_gaplength", "", 'task a "A" { effort 1d allocate r }\ntask b "B" { effort 1d allocate r depends !a { gaplength 100000d } }\n')
    add("late_project", "", 'task a "A" { effort 30d allocate r }\n'.replace("30d", "30d"), None)
    out[-1] = ("late_project", out[-1][1].replace("2024-01-01 +2w", "9999-12-01 +2w"))
    add("priority_zero", "", 'task a "A" { effort 1d allocate r priority 0 }\ntask b "B" { effort 1d allocate r priority 1001 }\n')
    add("dup_top_ids", "", 'task a "A" { effort 1d allocate r }\ntask a "A2" { effort 2d allocate r }\ntask b "B" { effort 1d allocate r depends a }\n')
    add("dup_nested_ids", "", 'task c "C" {\n  task a "A" { effort 1d allocate r }\n  task a "A2" { effort 2d allocate r }\n}\n')
    add("dup_resource_ids", "", 'resource r "R again" {}\ntask a "A" { effort 1d allocate r }\n')
    add("group_direct_midslot", "", 'resource team "T" { resource m1 "M1" {} resource m2 "M2" {} }\ntask x "X" { effort 90min allocate r }\ntask y "Y" { effort 2h allocate team depends !x }\n')
    add("shift_forward_ref", "", 'resource late "L" { workinghours s1 }\nshift s1 "S1" { workinghours mon - fri 06:00 - 10:00 }\ntask a "A" { effort 8h allocate late }\n')
    add("hours_24", "", 'resource n "N" { workinghours mon - sun 0:00 - 24:00 }\ntask a "A" { effort 100h allocate n }\n')
    add("end_only_ms_dep", "", 'task a "A" { effort 5d allocate r }\ntask m "M" { milestone end 2024-01-03 depends !a }\n')
    add("alap_chain_long", "", "".join('task t%d "T" { effort 1h allocate r %s }\n' % (i, "depends !t%d" % (i - 1) if i else "") for i in range(1200))
        + 'task last "L" { effort 1h allocate r depends !t1199 scheduling alap end 2024-09-27 }\n', "+9m")
    return out
