"""./check selftest [--seeds]: keeps the machinery honest (not a registered check; never edits /repo).

binding : corrupt one logged field / drop one event / swap two events / change a final date / change the abstract
          project -- each must turn conf false, flag a predicate, or fail the hook-completeness reconstruction.
seeds   : every change under seeded/<id>/ is applied to a scratch COPY of /repo (VERIF_REPO points the checks at it)
          and the quick check of its property must print a VIOLATION; the unchanged copy must stay silent.
"""
import copy
import json
import os
import random
import shutil
import subprocess
import sys
import tempfile

from harness import e1, gen
from harness.build import scratch_build
from harness.common import VERIF


def binding():
    rng = random.Random(4)
    jobs = [{"id": pid, "text": p.render(), "scenarios": [0], "abstract": p.abstract()} for pid, p in gen.chain_subslot(rng, 12)]
    ok = True
    with scratch_build() as scr:
        recs = [r for r in e1.run_impl(scr, jobs) if r.get("status") == "ok"]
    base, _ = e1.validate(recs)
    clean = [r for r in recs if base[r["id"]].conf and base[r["id"]].final_ok and not base[r["id"]].bad
             and sum(1 for e in r["events"] if e["ev"] == "Finish") >= 2]
    print("selftest/binding: %d clean traces" % len(clean))
    muts = []
    for r in clean[:6]:
        books = [i for i, e in enumerate(r["events"]) if e["ev"] == "Book"]
        fins = [i for i, e in enumerate(r["events"]) if e["ev"] == "Finish"]
        a = copy.deepcopy(r); a["id"] += "~field"; a["events"][books[0]]["secsT"] += 1
        b = copy.deepcopy(r); b["id"] += "~drop"; del b["events"][fins[0]]
        c = copy.deepcopy(r); c["id"] += "~swap"
        if len(books) >= 2:
            i, j = books[0], books[-1]
            c["events"][i], c["events"][j] = c["events"][j], c["events"][i]
        d = copy.deepcopy(r); d["id"] += "~final"
        k = next(i for i, f in enumerate(d["final"]) if f["sched"])
        d["final"][k]["end"] += 60
        e = copy.deepcopy(r); e["id"] += "~model"
        t = next(t for t in e["project"]["tasks"] if t["effort"])
        t["effort"] += e["project"]["G"]
        muts += [("field", a), ("drop", b), ("swap", c), ("final", d), ("model", e)]
    vs, _ = e1.validate([m for _, m in muts])
    for kind, m in muts:
        v = vs[m["id"]]
        hooks_ok, _ = e1.hooks_complete(m)
        detected = (not v.conf) or (not v.final_ok) or bool(v.bad) or (not hooks_ok)
        if not detected:
            ok = False
        print("  %-6s %-22s %s  (conf=%s finalOk=%s flags=%s hooks_complete=%s)" % (kind, m["id"], "rejected" if detected else "ACCEPTED -- binding broken",
                                                                                  v.conf, v.final_ok, sorted(v.tags()), hooks_ok))
    return ok


def seeds(only=None):
    ok = True
    base = os.path.join(VERIF, "seeded")
    for sid in sorted(os.listdir(base)):
        if only and sid not in only:
            continue
        meta = json.load(open(os.path.join(base, sid, "meta.json")))
        prop = sid.split("-")[0]
        d = tempfile.mkdtemp(prefix="spseed_")
        try:
            cp = os.path.join(d, "repo")
            subprocess.run(["rsync", "-a", "--exclude", "*.so", "--exclude", "build", "/repo/", cp + "/"], check=True)
            a = subprocess.run(["git", "-C", cp, "apply", os.path.join(base, sid, "patch.diff")], capture_output=True, text=True)
            if a.returncode != 0:
                print("  %-8s patch does not apply to the current tree (%s)" % (sid, a.stderr.strip()[:80]))
                ok = False
                continue
            env = dict(os.environ, VERIF_REPO=cp)
            r = subprocess.run([os.path.join(VERIF, "check"), prop, "--tier", "quick"], env=env, capture_output=True, text=True, cwd=VERIF)
            n = r.stdout.count("VIOLATION property=%s" % prop)
            print("  %-8s %s -> exit %d, %d violation line(s)" % (sid, prop, r.returncode, n))
            if r.returncode != 1 or n == 0:
                ok = False
        finally:
            shutil.rmtree(d, ignore_errors=True)
    return ok


def main(argv):
    ok = binding()
    if "--seeds" in argv:
        only = [a for a in argv if a not in ("--seeds",) and not a.startswith("-")]
        ok = seeds(only or None) and ok
    print("selftest %s" % ("passed" if ok else "FAILED"))
    return 0 if ok else 1
