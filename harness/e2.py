"""Engine E2: TLC runs Sched over a bounded universe (all properties as invariants), prints every
terminal state, and each one is replayed through rendered text into the real code (spec -> code)."""
import json
import os
import re
import shutil
import subprocess
import tempfile

from harness import gen
from harness.build import PY, env_for, MachineryError
from harness.tlc import run_tlc

TERM_RE = re.compile(r'<<"TERMINAL", "((?:[^"\\]|\\.)*)">>')


def run_universe(module, cfg, timeout=3000, workers=16):
    res = run_tlc(module, cfg, workers=workers, timeout=timeout, heap="12g")
    if res.error and not res.invariant_violated:
        raise MachineryError("TLC failed on %s/%s:\n%s" % (module, cfg, strip_terminals(res.out)[-2500:]))
    terms = []
    for m in TERM_RE.finditer(res.out):
        raw = m.group(1)
        terms.append(json.loads(raw.encode().decode("unicode_escape")))
    return res, terms


def strip_terminals(out):
    return "\n".join(l for l in out.splitlines() if "TERMINAL" not in l)


def run_final(scratch, jobs, pure=False, nproc=14, timeout=1800):
    wd = tempfile.mkdtemp(prefix="spfinal_")
    try:
        nproc = max(1, min(nproc, len(jobs)))
        procs = []
        for i in range(nproc):
            ch = jobs[i::nproc]
            jp = os.path.join(wd, "j%d.jsonl" % i)
            op = os.path.join(wd, "o%d.jsonl" % i)
            with open(jp, "w") as f:
                for j in ch:
                    f.write(json.dumps(j) + "\n")
            procs.append((subprocess.Popen([PY, "-m", "harness.finalrun", jp, op], cwd=wd,
                                           env=env_for(scratch, hooks=False, pure=pure),
                                           stdout=subprocess.DEVNULL, stderr=subprocess.PIPE, text=True), op))
        out = {}
        for p, op in procs:
            try:
                p.communicate(timeout=timeout)
            except subprocess.TimeoutExpired:
                p.kill()
                p.communicate()
            if os.path.exists(op):
                for line in open(op):
                    if line.strip():
                        r = json.loads(line)
                        out[r["id"]] = r
        return out
    finally:
        shutil.rmtree(wd, ignore_errors=True)


def replay_terminals(scratch, terms, length="+1w", pure=False, start=None):
    """Returns (n_replayed, mismatches[list of dict])."""
    from datetime import datetime, timedelta
    jobs = []
    base = start if start is not None else datetime(2024, 1, 1)          # a Monday 00:00
    for i, t in enumerate(terms):
        st = base + timedelta(minutes=t["project"].get("mow", 0))         # the project starts mow minutes into the week
        jobs.append({"id": "u%06d" % i, "text": gen.render_abstract(t["project"], length=length, start=st)})
    got = run_final(scratch, jobs, pure=pure)
    mism = []
    for i, t in enumerate(terms):
        r = got.get("u%06d" % i)
        exp = [(f["sched"], f["start"] if f["sched"] else -1, f["end"] if f["sched"] else -1) for f in t["final"]]
        if r is None or r.get("status") != "ok":
            mism.append({"idx": i, "project": t["project"], "text": jobs[i]["text"], "expected": exp,
                         "got": None if r is None else r.get("error", r.get("status"))})
            continue
        have = [(f["sched"], f["start"] if f["sched"] else -1, f["end"] if f["sched"] else -1) for f in r["final"]]
        if have != exp:
            mism.append({"idx": i, "project": t["project"], "text": jobs[i]["text"], "expected": exp, "got": have})
    return len(jobs), mism
