"""In-scratch runner: parse + schedule project texts with the real code (hooks on) and write
one trace record per (text, scenario) as JSON lines.

Run as   python -m harness.implrun JOBS.jsonl OUT.jsonl    with PYTHONPATH=<scratch>:/verif
Each job: {"id":..., "text":..., "scenarios": "all"|[0,..], "abstract": optional generated abstract
project (then names are mapped onto it instead of extracting from the parsed model)}.

Trace record (ints only, ready for TLC's Json module):
  {id, sc, status: "ok"|"rejected"|"crash", error?, project: A, events: [...], final: [...],
   ledger: [...], warns: [...], meta: {...}}
"""
import json
import math
import os
import re
import sys
import traceback
from fractions import Fraction
from datetime import timedelta, timezone as dtz

from harness.build import block_cython_if_requested

PURE = block_cython_if_requested()

import zoneinfo  # noqa: E402

from scriptplan.parser.tjp_parser import ProjectFileParser  # noqa: E402
from scriptplan.core import limits as LM  # noqa: E402
from scriptplan import _verif_trace as VT  # noqa: E402

# ---- harness-side (not repo) annotation: remember the declared hours of every limit -------
_orig_setLimit = LM.Limits.setLimit


def _setLimit(self, name, value, interval=None, resource=None):
    _orig_setLimit(self, name, value, interval, resource)
    if self._limits:
        self._limits[-1]._verif_hours = value


LM.Limits.setLimit = _setLimit
_orig_copy = LM.Limit.copy


def _copy(self):
    c = _orig_copy(self)
    if hasattr(self, "_verif_hours"):
        c._verif_hours = self._verif_hours
    return c


LM.Limit.copy = _copy


PARSER = ProjectFileParser()   # one grammar compilation per runner process (history independence is C12's business)


def frac(x):
    return Fraction(str(x))


def isecs(project, dt):
    if dt is None:
        return None
    x = (dt - project["start"]).total_seconds()
    return int(round(x))


def dur_secs(s):
    """gapduration etc. as TaskScenario._parse_duration reads them (calendar hours)."""
    m = re.match(r"(\d+(?:\.\d+)?)\s*(min|h|d|w|m|y)?", str(s).lower())
    if not m:
        return 0
    mul = {"min": 60, "h": 3600, "d": 8 * 3600, "w": 40 * 3600, "m": 160 * 3600, "y": 1920 * 3600}[m.group(2) or "h"]
    return int(Fraction(m.group(1)) * mul)


def tz_table(tzname, start, nsecs, ptz=None):
    """Offset step function [[fromSec, offsetMin], ...] of an IANA zone over the horizon: local time of the zone minus
    project time, computed from zoneinfo only (independent of scriptplan).  Project time is the time of the zone the
    project header names (reference semantics: every date of the text is in that zone; UTC when it names none)."""
    if not tzname:
        return [[0, 0]]
    try:
        z = zoneinfo.ZoneInfo(tzname)
        pz = zoneinfo.ZoneInfo(ptz) if ptz and ptz not in ("UTC", "Etc/UTC") else dtz.utc
    except Exception:
        return [[0, 0]]

    def off(t):
        naive = start + timedelta(seconds=t)
        local = naive.replace(tzinfo=pz).astimezone(z).replace(tzinfo=None)
        return int((local - naive).total_seconds() // 60)

    out = [[0, off(0)]]
    t = 0
    step = 3600
    while t < nsecs:
        t2 = min(t + step, nsecs)
        if off(t2) != out[-1][1]:
            lo, hi = t, t2  # off(lo) == last, off(hi) != last: bisect to the second
            while hi - lo > 1:
                mid = (lo + hi) // 2
                if off(mid) == out[-1][1]:
                    lo = mid
                else:
                    hi = mid
            out.append([hi, off(hi)])
            t = hi
        else:
            t = t2
    return out


def limits_of(obj, sc, G, rid):
    L = obj.get("limits", sc)
    out = []
    # limits inherited from a container / group are independent copies that are implied by the
    # original (which is consulted through the ancestor walk anyway): only own limits are modelled
    if L and obj.provided("limits", sc):
        for lim in L._limits:
            kind = {"dailymax": "d", "weeklymax": "w"}.get(lim.name)
            if kind is None:
                continue
            hrs = getattr(lim, "_verif_hours", None)
            val_sec = int(round(float(frac(hrs) * 3600))) if hrs is not None else lim.value * G
            try:        # informational only; the counter store is an implementation detail that may change shape
                periods = len(lim._scoreboard)
            except Exception:
                periods = 0
            out.append({"kind": kind, "val": int(lim.value), "valSec": val_sec,
                        "res": rid(lim.resource) if lim.resource else 0, "periods": periods})
    return out


def lcm(a, b):
    return a * b // math.gcd(a, b)


def extract(p, sc=0):
    """Abstract project of the parsed (not yet scheduled) model for scenario sc."""
    G = p.attributes["scheduleGranularity"]
    start = p["start"]
    decl_end = p["end"]
    try:
        ptz = p["timezone"] or None      # the zone the project header names
    except Exception:
        ptz = None
    declN = math.ceil((decl_end - start).total_seconds() / G) + 1
    p._extendProjectEndIfNeeded()
    tasks = list(p.tasks)
    res = list(p.resources)
    tix = {t.fullId: i + 1 for i, t in enumerate(tasks)}
    rix = {r.fullId: i + 1 for i, r in enumerate(res)}
    byid = {}
    for i, r in enumerate(res):
        byid.setdefault(r.id, i + 1)  # first match by short id, as _resolve_resource does

    def rid(a):
        if not isinstance(a, str):
            a = getattr(a, "fullId", None)
        return rix.get(a) or byid.get(a) or 0

    N = math.ceil((p["end"] - start).total_seconds() / G) + 1

    def deps_of(t):
        out = []
        for d in t.get("depends", sc) or []:
            if isinstance(d, dict):
                tt = d["task"]
                gap = d.get("gapduration")
                onstart = bool(d.get("onstart"))
                mg = bool(d.get("maxgapduration"))
                gl = bool(d.get("gaplength"))
                glen = int(-(-dur_secs(d.get("gaplength")) // G)) if gl else 0      # slots of working time that cover the gap length (D24)
            else:
                tt, gap, onstart, mg, gl, glen = d, None, False, False, False, 0
            known = tt.fullId in tix and tasks[tix[tt.fullId] - 1] is tt
            e = {"p": tix[tt.fullId] if known else 0, "onstart": onstart, "gap": dur_secs(gap) if gap else 0,
                 "clone": not known, "maxgap": mg, "gaplen": gl, "glen": glen}
            if e not in out:
                out.append(e)
        return out

    T = []
    for t in tasks:
        eff = t.get("effort", sc) or 0
        al = t.get("allocate", sc) or []
        alt = []
        if isinstance(al, list) and len(al) == 1 and isinstance(al[0], dict):
            alt = al[0].get("options", {}).get("alternative", [])
            al = al[0].get("resources", [])
        elif isinstance(al, dict):
            alt = al.get("options", {}).get("alternative", [])
            al = al.get("resources", [])
        st = t.get("start", sc)
        en = t.get("end", sc)
        own_s = bool(st) and t.provided("start", sc)
        own_e = bool(en) and t.provided("end", sc)
        es_f = float(eff) * 3600.0
        T.append({
            "name": t.fullId, "parent": tix[t.parent.fullId] if t.parent else 0, "leaf": bool(t.leaf()),
            "seq": int(t.get("seqno") or 0), "prio": int(t.get("priority", sc) or 500),
            "effort": int(round(es_f)), "effortExact": abs(es_f - round(es_f)) < 1e-6,
            "milestone": bool(t.get("milestone", sc)),
            "other": bool((t.get("duration", sc) or 0) or (t.get("length", sc) or 0)),
            "deps": deps_of(t),
            "alloc": [rid(a) for a in al if rid(a)], "alt": [rid(a) for a in alt if rid(a)],
            "pin": isecs(p, st) if own_s else -1, "inhStart": isecs(p, st) if (st and not own_s) else -1,
            "pinEnd": isecs(p, en) if own_e else -1,
            "fwd": bool(t.get("forward", sc)), "expl": bool(getattr(t, "_explicit_scheduling", False)),
            "flags": list(t.get("flags", sc) or []),
            "limits": limits_of(t, sc, G, rid)})
    R = []
    L = 1
    for r in res:
        e = frac(r.get("efficiency", sc) or 1.0)
        wh = r.get("workinghours", sc)
        sh = r.get("shifts", sc)
        if sh:
            swh = sh.get("workinghours", sc)
            if swh and hasattr(swh, "onShift"):
                wh = swh
        if wh is not None and getattr(wh, "_custom_hours_set", False):
            hours = [[[a[0] * 60 + a[1], b[0] * 60 + b[1]] for a, b in wh._hours.get(d, [])] for d in range(7)]
            cal = "hours"
        else:
            hours = [[] for _ in range(7)]
            cal = "default"
        lv = [[isecs(p, l.interval.start), isecs(p, l.interval.end)] for l in (r.get("leaves", sc) or [])
              if hasattr(l, "interval")]
        if r.leaf():
            L = lcm(L, e.numerator)
        R.append({"name": r.fullId, "parent": rix[r.parent.fullId] if r.parent else 0, "leaf": bool(r.leaf()),
                  "effN": e.numerator, "effD": e.denominator, "cal": cal, "hours": hours, "leaves": lv,
                  "tz": tz_table(r.get("timezone", sc), start, N * G, ptz), "limits": limits_of(r, sc, G, rid)})
    for r in R:
        r["lmul"] = L // r["effN"] if L % r["effN"] == 0 else 1
    vac = [[isecs(p, v.interval.start), isecs(p, v.interval.end)] for v in p.attributes.get("vacations", [])
           if hasattr(v, "interval")]
    gl = [[isecs(p, v.interval.start), isecs(p, v.interval.end)] for v in (p.attributes.get("leaves") or [])
          if hasattr(v, "interval")]
    mow = start.weekday() * 1440 + start.hour * 60 + start.minute
    A = {"G": G, "N": N, "declN": declN, "mow": mow, "sos": start.second, "tasks": T, "res": R, "vac": vac,
         "gleaves": gl, "endSec": isecs(p, p["end"]), "declEndSec": isecs(p, decl_end), "L": L,
         "alap": p.attributes.get("scheduling") == "alap"}
    A["cstep"] = cal_step(A)
    return A, tix, rix


def cal_step(A):
    """Largest step (seconds, divisor of G) such that every calendar edge of the project lies on
    a multiple of it, counted from project start.  The spec samples OnShiftSec at that step."""
    g = A["G"]
    start_sod = (A["mow"] % 1440) * 60 + A.get("sos", 0)

    def fold(x):
        nonlocal g
        g = math.gcd(g, abs(int(x)))

    fold(start_sod)  # wall-clock edges are relative to midnight
    for iv in A["vac"] + A["gleaves"]:
        fold(iv[0]); fold(iv[1])
    for r in A["res"]:
        for iv in r["leaves"]:
            fold(iv[0]); fold(iv[1])
        for day in r["hours"]:
            for a, b in day:
                fold(a * 60); fold(b * 60)
        for frm, offm in r["tz"]:
            fold(frm); fold(offm * 60)
    return max(g, 1)


TASK_CMP = ("parent", "leaf", "prio", "effort", "milestone", "alloc", "alt", "pin", "inhStart", "pinEnd", "fwd", "flags")
RES_CMP = ("parent", "leaf", "effN", "effD", "cal", "hours", "leaves")


def merge_abstract(A_ext, gen, start):
    """Task/resource part from the generator (parser not trusted), frame part from the model.
    Returns (A, diffs): diffs lists every field in which the parsed model disagrees."""
    diffs = []
    if [t["name"] for t in gen["tasks"]] != [t["name"] for t in A_ext["tasks"]]:
        return None, ["task names/order differ: %r vs %r" % ([t["name"] for t in gen["tasks"]], [t["name"] for t in A_ext["tasks"]])]
    if [r["name"] for r in gen["res"]] != [r["name"] for r in A_ext["res"]]:
        return None, ["resource names/order differ"]
    A = dict(A_ext)
    T = []
    for g, e in zip(gen["tasks"], A_ext["tasks"]):
        t = dict(g)
        for k in TASK_CMP:
            if g[k] != e[k]:
                diffs.append("task %s.%s: generated %r parsed %r" % (g["name"], k, g[k], e[k]))
        def alldeps(tasks, t):
            out = set()
            while True:
                out |= {(d["p"], d["onstart"], d["gap"]) for d in t["deps"]}
                if not t["parent"]:
                    return sorted(out)
                t = tasks[t["parent"] - 1]
        gd = alldeps(gen["tasks"], g)
        ed = alldeps(A_ext["tasks"], e)
        if gd != ed:
            diffs.append("task %s.deps: generated %r parsed %r" % (g["name"], gd, ed))
        gl = sorted((d["kind"], d["valSec"], d["res"]) for d in g["limits"])
        el = sorted((d["kind"], d["valSec"], d["res"]) for d in e["limits"])
        if gl != el:
            diffs.append("task %s.limits: generated %r parsed %r" % (g["name"], gl, el))
        t["seq"] = e["seq"]
        T.append(t)
    R = []
    L = 1
    for g in gen["res"]:
        if g["leaf"]:
            L = lcm(L, g["effN"])
    for g, e in zip(gen["res"], A_ext["res"]):
        r = dict(g)
        for k in RES_CMP:
            gv, ev = g[k], e[k]
            if k == "leaves":
                gv, ev = sorted(set(map(tuple, gv))), sorted(set(map(tuple, ev)))
            if gv != ev:
                diffs.append("res %s.%s: generated %r parsed %r" % (g["name"], k, gv, ev))
        gl = sorted((d["kind"], d["valSec"]) for d in g["limits"])
        el = sorted((d["kind"], d["valSec"]) for d in e["limits"])
        if gl != el:
            diffs.append("res %s.limits: generated %r parsed %r" % (g["name"], gl, el))
        r["tz"] = tz_table(g.get("tzname") or None, start, A_ext["N"] * A_ext["G"], gen.get("ptz"))
        if r["tz"] != e["tz"]:
            diffs.append("res %s.tz differs" % g["name"])
        r["lmul"] = L // r["effN"]
        r.pop("tzname", None)
        R.append(r)
    A["tasks"] = T
    A["res"] = R
    A["L"] = L
    for k in ("vac", "gleaves", "alap"):
        if sorted(gen[k]) != sorted(A_ext[k]) if isinstance(gen[k], list) else gen[k] != A_ext[k]:
            diffs.append("project.%s: generated %r parsed %r" % (k, gen[k], A_ext[k]))
        A[k] = gen[k]
    A["cstep"] = cal_step(A)
    return A, diffs


def norm_events(raw, A, tix, rix, sc):
    evs = []
    inexact = False
    for e in raw:
        if e.get("sc", sc) not in (sc, -1):
            continue
        e = dict(e)
        ev = e["ev"]
        if "task" in e:
            e["task"] = tix.get(e["task"], 0)
        if e.get("res") is not None:
            e["res"] = rix.get(e["res"], 0)
        elif "res" in e:
            e["res"] = 0
        n = A["res"][e["res"] - 1]["effN"] if e.get("res") else 1
        for k in ("secs", "used", "kept", "used0"):
            if k in e:
                v = e.pop(k)
                if v is None:
                    e[k + "T"] = -1
                else:
                    x = v * n
                    e[k + "T"] = int(round(x))
                    if abs(x - round(x)) >= 1e-6:
                        e["inexact"] = True
                        inexact = True
        for k in ("start", "end", "date"):
            if k in e:
                if e[k] is None:
                    e[k] = -1
                else:
                    if abs(e[k] - round(e[k])) >= 1e-6:
                        e["inexact"] = True
                        inexact = True
                    e[k] = int(round(e[k]))
        if "offset" in e:
            if abs(e["offset"] - round(e["offset"])) >= 1e-6:
                e["inexact"] = True
                inexact = True
            e["offset"] = int(round(e["offset"]))
        if "cursor" in e and e["cursor"] is None:
            e["cursor"] = -1
        for k in ("gained", "done"):
            e.pop(k, None)  # floats: diagnostic only
        if ev == "Modes":
            e["fwd"] = [bool(e["fwd"].get(t["name"], True)) for t in A["tasks"]]
        if "unsched" in e:
            e["unsched"] = [tix.get(x, 0) for x in e["unsched"]]
        for k in ("selected", "prim", "alt", "sel"):
            if k in e:
                e[k] = [rix.get(x, 0) for x in e[k]]
        if ev == "Prepare":
            e["end"] = int(round(e["end"])) if e.get("end") is not None else -1
        evs.append(e)
    return evs, inexact


def final_state(p, sc, A, tix, rix):
    fin = []
    for t in p.tasks:
        st = t.get("start", sc)
        en = t.get("end", sc)
        fin.append({"sched": bool(t.get("scheduled", sc)), "start": isecs(p, st) if st else -1,
                    "end": isecs(p, en) if en else -1})
    led = []
    for r in p.resources:
        rs = r.data[sc] if r.data else None
        if rs is None:
            continue
        n = A["res"][rix[r.fullId] - 1]["effN"]
        keys = set(rs.slotTaskUsage) | set(rs.slotSecondsUsed)
        for s in sorted(keys):
            parts = [[tix.get(t.fullId, 0), int(round(x * n))] for t, x in rs.slotTaskUsage.get(s, [])]
            u = rs.slotSecondsUsed.get(s)
            led.append({"r": rix[r.fullId], "s": int(s), "used": int(round(u * n)) if u is not None else -1,
                        "parts": parts})
    return fin, led


def run_job(job):
    out = []
    text = job["text"]
    VT.drain()
    try:
        p0 = PARSER.parse(text, schedule=False)
    except JobTimeout:
        raise
    except BaseException as ex:  # noqa: BLE001 - classify everything
        return [{"id": job["id"], "sc": 0, "status": "rejected", "error": type(ex).__name__ + ": " + str(ex)[:300],
                 "events": [], "nevents": len(VT.drain())}]
    nsc = len(list(p0.scenarios))
    want = job.get("scenarios", [0])
    if want == "all":
        want = list(range(nsc))
    abstracts = {}
    try:
        for sc in want:
            if sc < nsc:
                abstracts[sc] = extract(p0, sc) if sc == want[0] else None
    except JobTimeout:
        raise
    except BaseException as ex:  # noqa: BLE001
        extract_error = traceback.format_exc()[-1500:]
        # the harness could not model the accepted text; the pipeline itself is still observed: does parse + schedule return?
        VT.drain()
        try:
            PARSER.parse(text)
        except JobTimeout:
            raise
        except BaseException:  # noqa: BLE001
            return [{"id": job["id"], "sc": 0, "status": "crash", "phase": "pipeline",
                     "error": traceback.format_exc()[-1500:], "events": [], "nevents": len(VT.drain()), "extract_error": extract_error[-400:]}]
        VT.drain()
        return [{"id": job["id"], "sc": 0, "status": "crash", "phase": "extract",
                 "error": extract_error, "events": []}]
    VT.drain()
    status = "ok"
    err = None
    p = None
    try:
        p = PARSER.parse(text)
    except JobTimeout:
        raise
    except BaseException:  # noqa: BLE001
        status = "crash"
        err = traceback.format_exc()[-1500:]
    raw = VT.drain()
    for sc in want:
        if sc >= nsc:
            continue
        if abstracts.get(sc) is None:
            p1 = PARSER.parse(text, schedule=False)
            VT.drain()
            abstracts[sc] = extract(p1, sc)
        A, tix, rix = abstracts[sc]
        absdiff = []
        gens = job.get("abstracts") or ({str(want[0]): job["abstract"]} if job.get("abstract") else {})
        if str(sc) in gens:
            A2, absdiff = merge_abstract(A, gens[str(sc)], p0["start"])
            if A2 is not None:
                A = A2
        evs, inexact = norm_events(raw, A, tix, rix, sc)
        rec = {"id": job["id"] if len(want) == 1 else "%s#sc%d" % (job["id"], sc), "sc": sc, "status": status,
               "project": A, "events": evs, "nsc": nsc, "inexact": inexact, "pure": PURE,
               "warns": [e["id"] for e in raw if e["ev"] == "Warn"], "absdiff": absdiff}
        if err:
            rec["error"] = err
        if p is not None:
            rec["final"], rec["ledger"] = final_state(p, sc, A, tix, rix)
        else:
            rec["final"], rec["ledger"] = [], []
        out.append(rec)
    return out


class JobTimeout(BaseException):
    pass


def _alarm(signum, frame):
    raise JobTimeout()


def main(jobs_path, out_path):
    import signal
    import time
    signal.signal(signal.SIGALRM, _alarm)
    with open(jobs_path) as f, open(out_path, "w") as out:
        for line in f:
            line = line.strip()
            if not line:
                continue
            job = json.loads(line)
            limit = float(job.get("limit", 0) or 0)
            t0 = time.time()
            try:
                if limit:
                    signal.setitimer(signal.ITIMER_REAL, limit)
                recs = run_job(job)
            except JobTimeout:
                recs = [{"id": job.get("id"), "sc": 0, "status": "hang", "limit": limit, "events": [], "nevents": len(VT.drain())}]
            except BaseException:  # noqa: BLE001
                recs = [{"id": job.get("id"), "sc": 0, "status": "crash", "phase": "runner",
                         "error": traceback.format_exc()[-1500:], "events": []}]
            finally:
                signal.setitimer(signal.ITIMER_REAL, 0)
            for r in recs:
                r["wall"] = round(time.time() - t0, 3)
            for r in recs:
                out.write(json.dumps(r) + "\n")
            out.flush()


if __name__ == "__main__":
    main(sys.argv[1], sys.argv[2])
