"""Engine E1: run projects through the real code (hooks on), validate the traces with TLC
(spec/TraceSched.tla) and return structured verdicts."""
import json
import os
import subprocess
import tempfile
import shutil

from harness import tlaval
from harness.build import PY, env_for, MachineryError
from harness.tlc import run_tlc

VERIF = os.path.dirname(os.path.dirname(os.path.abspath(__file__)))


def run_impl(scratch, jobs, pure=False, timeout=1800, workdir=None, nproc=8):
    """jobs: list of dicts (id, text, scenarios, abstract?).  Returns list of trace records.
    Jobs are split over nproc runner processes."""
    wd = workdir or tempfile.mkdtemp(prefix="spimpl_")
    try:
        nproc = max(1, min(nproc, len(jobs)))
        chunks = [jobs[i::nproc] for i in range(nproc)]
        procs = []
        for i, ch in enumerate(chunks):
            jp = os.path.join(wd, "jobs%d.jsonl" % i)
            op = os.path.join(wd, "out%d.jsonl" % i)
            with open(jp, "w") as f:
                for j in ch:
                    f.write(json.dumps(j) + "\n")
            p = subprocess.Popen([PY, "-m", "harness.implrun", jp, op], cwd=wd,
                                 env=env_for(scratch, hooks=True, pure=pure),
                                 stdout=subprocess.DEVNULL, stderr=subprocess.PIPE, text=True)
            procs.append((p, op, ch))
        recs = []
        for p, op, ch in procs:
            try:
                _, err = p.communicate(timeout=timeout)
            except subprocess.TimeoutExpired:
                p.kill()
                _, err = p.communicate()
                err = (err or "") + "\nRUNNER TIMEOUT"
            got = []
            if os.path.exists(op):
                with open(op) as f:
                    for line in f:
                        line = line.strip()
                        if line:
                            got.append(json.loads(line))
            seen = {r["id"].split("#sc")[0] for r in got}
            for j in ch:
                if j["id"] not in seen:
                    got.append({"id": j["id"], "sc": 0, "status": "hang" if "TIMEOUT" in (err or "") else "lost",
                                "error": (err or "")[-800:], "events": []})
            recs.extend(got)
        order = {j["id"]: i for i, j in enumerate(jobs)}
        recs.sort(key=lambda r: (order.get(r["id"].split("#sc")[0], 1 << 30), r.get("sc", 0)))
        return recs
    finally:
        if workdir is None:
            shutil.rmtree(wd, ignore_errors=True)


def reconstruct_ledger(rec):
    """Rebuild the final ledger from the Book / OffsetMark / Finish events alone."""
    used = {}
    parts = {}
    for e in rec["events"]:
        ev = e["ev"]
        if ev == "Book":
            k = (e["res"], e["slot"])
            parts.setdefault(k, []).append([e["task"], e["secsT"]])
            used[k] = e["usedT"]
        elif ev == "OffsetMark":
            k = (e["res"], e["slot"])
            used[k] = e["usedT"]
            parts.setdefault(k, parts.get(k, []))
        elif ev == "Finish" and e.get("res"):
            k = (e["res"], e["slot"])
            for q in parts.get(k, []):
                if q[0] == e["task"]:
                    q[1] = e["keptT"]
                    break
            if e["usedT"] >= 0:
                used[k] = e["usedT"]
    return used, parts


def hooks_complete(rec):
    """Machinery check: the logged events explain exactly the ledger read through the API."""
    if rec.get("status") != "ok" or "ledger" not in rec:
        return True, ""
    used, parts = reconstruct_ledger(rec)
    fin_used = {(x["r"], x["s"]): x["used"] for x in rec["ledger"] if x["used"] >= 0}
    fin_parts = {(x["r"], x["s"]): x["parts"] for x in rec["ledger"] if x["parts"]}
    parts = {k: v for k, v in parts.items() if v}
    if used != fin_used:
        d = [k for k in set(used) | set(fin_used) if used.get(k) != fin_used.get(k)][:3]
        return False, "used differs at %s: events %s api %s" % (d, [used.get(k) for k in d], [fin_used.get(k) for k in d])
    if parts != fin_parts:
        d = [k for k in set(parts) | set(fin_parts) if parts.get(k) != fin_parts.get(k)][:3]
        return False, "portions differ at %s: events %s api %s" % (d, [parts.get(k) for k in d], [fin_parts.get(k) for k in d])
    return True, ""


def fits32(rec):
    """TLC integers are 32 bit: a trace whose horizon in ticks / limit units (or any logged number) does not fit cannot be evaluated."""
    P = rec.get("project")
    if not P:
        return False
    big = 2 ** 31 - 1
    scale = max([r.get("effN", 1) * r.get("lmul", 1) for r in P["res"]] + [P.get("L", 1), 1])
    if (P["N"] + 2) * P["G"] * scale * 2 > big:
        return False

    def ok(x):
        if isinstance(x, bool):
            return True
        if isinstance(x, int):
            return -big <= x * 2 <= big
        if isinstance(x, dict):
            return all(ok(v) for v in x.values())
        if isinstance(x, list):
            return all(ok(v) for v in x)
        return True
    return ok(P["tasks"]) and ok(rec.get("events", [])) and ok(rec.get("final", []))


class Verdict:
    def __init__(self, tid, conf, div, bad, final_ok, dialect):
        self.id = tid
        self.conf = conf
        self.div = div
        self.bad = bad            # list of (tag, l, msg, detail)
        self.final_ok = final_ok
        self.dialect = dialect

    def tags(self):
        return {b[0] for b in self.bad}

    def of(self, tag):
        return [b for b in self.bad if b[0] == tag]

    def core(self):
        d = self.dialect
        return d["plain"] and d["aligned"] and d["whole"] and d["noalt"] and d["fwdOnly"] and d["pinsAligned"]

    def summary(self):
        return {"id": self.id, "conf": self.conf, "div": self.div, "bad": [list(b[:3]) + [str(b[3])[:160]] for b in self.bad],
                "finalOk": self.final_ok}


VALIDATE_BYTES = 24 * 2 ** 20       # (estimated from the number of events and tasks)
VALIDATE_CHUNK = 6000     # traces per TLC invocation: beyond ~10^4 traces one JVM spends its time in the collector (measured: 41k traces, no end in 50 min)


def validate(recs, workers=16, timeout=3000, keep_file=None):
    """TLC over a batch of ok-status trace records.  Returns (dict id -> Verdict, TlcResult)."""
    todo = [r for r in recs if "project" in r]
    if not todo:
        return {}, None
    # chunks bounded by number AND by size: every TLC worker builds the whole input as TLA+ values; with 6 000 long traces
    # (156 MB of JSON) one run took more than 50 minutes, its four quarters 15-28 s each
    sizes = [40 * (len(r.get("events", [])) + 8 * len(r["project"].get("tasks", [])) + 20) for r in todo]
    if (len(todo) > VALIDATE_CHUNK or (sum(sizes) > VALIDATE_BYTES and len(todo) > 1)) and not keep_file:
        chunks, cur, cur_b = [], [], 0
        for r, b in zip(todo, sizes):
            if cur and (len(cur) >= VALIDATE_CHUNK or cur_b + b > VALIDATE_BYTES):
                chunks.append(cur)
                cur, cur_b = [], 0
            cur.append(r)
            cur_b += b
        chunks.append(cur)
        out, total = {}, None
        for ch in chunks:
            vs, res = _validate_one(ch, workers, timeout, None)
            out.update(vs)
            if total is None:
                total = res
            else:
                total.generated += res.generated
                total.distinct += res.distinct
                total.wall += res.wall
        return out, total
    return _validate_one(todo, workers, timeout, keep_file)


def _validate_one(todo, workers, timeout, keep_file):
    fd, path = tempfile.mkstemp(prefix="sptrace_", suffix=".ndjson")
    try:
        with os.fdopen(fd, "w") as f:
            for r in todo:
                slim = {"id": r["id"], "status": r["status"], "project": r["project"], "events": r["events"],
                        "final": r.get("final", []), "warns": r.get("warns", []),
                        # slots of the final ledger shared by several tasks (C01: layout inside the reported intervals)
                        "ledger": [x for x in r.get("ledger", []) if len(x.get("parts", [])) >= 2]}
                f.write(json.dumps(slim) + "\n")
        res = run_tlc("TraceSched", "TraceSched.cfg", env_extra={"TRACE_FILE": path}, workers=workers, timeout=timeout)
        if keep_file:
            shutil.copy(path, keep_file)
    finally:
        os.unlink(path)
    if res.error and not res.tuples("VERDICT"):
        raise MachineryError("TLC failed on trace batch:\n" + res.out[-3000:])
    out = {}
    for raw in res.tuples("VERDICT"):
        v = tlaval.parse(raw)
        _, tid, conf, div, bad, final_ok, dialect = v
        out[tid] = Verdict(tid, conf, div, [tuple(b) for b in bad], final_ok, dialect)
    missing = [r["id"] for r in todo if r["id"] not in out]
    if missing:
        raise MachineryError("TLC produced no verdict for traces %s\n%s" % (missing[:5], res.out[-2500:]))
    return out, res
