"""C12: same input, same output.  Session.tla enumerates every call history (parse, parse-only, schedule
again, report, CLI path; one rejected text) up to a bound; every history is replayed in one real
interpreter (all histories of a runner share that interpreter) and every observation is compared, by
spec/Relate.tla, with what a fresh process observes for the same text."""
import json
import os
import random
import shutil
import subprocess
import tempfile
from datetime import datetime

from harness import gen, relate, tlaval
from harness.build import scratch_build, env_for, PY, MachineryError
from harness.common import Run, phash
from harness.tlc import run_tlc

REPORT = '''
taskreport rep "rep" {
  formats json, csv
  columns id, start, end, effort, cost
  timeformat "%Y-%m-%d-%H:%M"
}
'''


def make_texts(rng):
    """A: results depend on attribute inheritance (priority, start and limits inherited from containers,
    a resource-group limit); B: limits + two scenarios with an override; X: rejected."""
    from datetime import timedelta
    a = gen.Proj(start=datetime(2024, 3, 4), length="+4w")
    grp = a.add_res("team", limits=[("d", 6 * 3600)])
    r0 = a.add_res("r0", parent=grp)
    r1 = a.add_res("r1", parent=grp, eff="0.5")
    r0.rate, r1.rate = 120, 80
    lo = a.add_task("lo", effort=8 * 3600, alloc=[r0], prio=600)
    box = a.add_task("box", prio=800, start=datetime(2024, 3, 5, 9), limits=[("d", 4 * 3600, None)])
    b1 = a.add_task("b1", parent=box, effort=10 * 3600, alloc=[r0])
    b2 = a.add_task("b2", parent=box, effort=5400, alloc=[r1], deps=[(b1, False, 1800)])
    inner = a.add_task("inner", parent=box)
    a.add_task("i1", parent=inner, effort=3 * 3600, alloc=[r0], deps=[(lo, False, 0)])
    a.add_task("ms", parent=inner, milestone=True, deps=[(b2, False, 0)])
    a.add_task("tail", effort=2 * 3600, alloc=[r1], prio=300, deps=[(box, False, 3600)])
    # allocations with several alternatives that are NOT interchangeable (staggered leaves): the order in which
    # the alternatives are kept decides the choice
    d0 = datetime(2024, 3, 4)
    for k, (n1, n2, n3) in enumerate((("gpu", "cpub", "cpuc"), ("kiln", "oven", "forge"), ("lathe", "mill", "drill"), ("vm1", "vm2", "vm3"))):
        prim = a.add_res(n1, leaves=[(d0, d0 + timedelta(days=9))])
        slow = a.add_res(n2, leaves=[(d0, d0 + timedelta(days=16))])
        free = a.add_res(n3)
        prim.rate, slow.rate, free.rate = 400 + 10 * k, 250, 310 + k      # money columns depend on who did the work
        a.add_task("x%d" % k, effort=16 * 3600, alloc=[prim], alt=[slow, free] if k % 2 == 0 else [free, slow], prio=450)
    # ... and alternatives that ARE interchangeable in time but not in money: ties go to the one written first, so the order
    # in which the alternatives are kept decides who does the work (and the next task finds that one busy)
    pool = [a.add_res(n) for n in ("anna", "bert", "cleo", "dora")]
    for k, r in enumerate(pool):
        r.rate = 100 + 37 * k
    busy = a.add_res("lead", leaves=[(d0, d0 + timedelta(days=12))])
    busy.rate = 500
    a.add_task("y0", effort=12 * 3600, alloc=[busy], alt=[pool[2], pool[0], pool[3], pool[1]], prio=440)
    a.add_task("y1", effort=20 * 3600, alloc=[busy], alt=[pool[1], pool[3], pool[0]], prio=430)
    a.add_task("y2", effort=6 * 3600, alloc=[pool[3]], prio=420)
    # work that does not fit (a weekly limit keeps it from finishing): the task stays unscheduled, whatever is called afterwards;
    # and a resource that is both the primary choice and one of its own alternatives
    slowpoke = a.add_res("slowpoke")
    slowpoke.rate = 90
    a.add_task("nofit", effort=40 * 8 * 3600, alloc=[slowpoke], prio=200, limits=[("w", 8 * 3600, None)])
    a.add_task("y3", effort=10 * 3600, alloc=[pool[0]], alt=[pool[1], pool[0]], prio=410)
    a.extra = REPORT
    b = gen.limits_profile(rng, 1)[0][1]
    # people in zones of their own with hours of their own: whatever is remembered about "slot i of this zone" while B is
    # scheduled must not be taken for slot i of C, which begins at the same instant but counts slots of another length
    tok = b.add_res("tok", hours=gen.std_hours(540, 1020), tz="Asia/Tokyo")
    nyc = b.add_res("nyc", hours={d: [(480, 720), (780, 1020)] for d in range(5)}, tz="America/New_York")
    tok.rate, nyc.rate = 70, 95
    tz1 = b.add_task("tz1", effort=21 * 3600, alloc=[tok], prio=350)
    b.add_task("tz2", effort=13 * 3600 + 1800, alloc=[nyc], prio=340, deps=[(tz1, False, 0)])
    b.scenarios = [("plan", [("alt", [])])]
    leaves = [t for t in b.tasks if not t.kids and t.effort]
    if leaves:
        leaves[0].scen["alt"] = {"effort": leaves[0].effort * 2}
    b.extra = REPORT
    # C: the same tasks (same full ids) as B, but the scenario-specific value is written with the prefix of the PARENT scenario
    # and reaches the nested one by inheritance: whatever a builder remembers about "B's task x has a value of its own in
    # scenario alt" must not leak into another project
    c = gen.clone(b)
    c.G = 1800 if b.G != 1800 else 3600
    cl = [t for t in c.tasks if not t.kids and t.effort]
    if cl:
        cl[0].scen = {"plan": {"effort": cl[0].effort * 3}}
        if len(cl) > 1:
            cl[1].scen = {"alt": {"effort": max(c.G, cl[1].effort // 2 // c.G * c.G)}}
    c.extra = REPORT.replace('rep "rep"', 'repc "repc"') + 'taskreport repalt "repalt" {\n  formats csv\n  columns id, start, end, effort\n  scenarios alt\n}\n'
    x = a.render().replace("task ", "tsak ", 1)
    return {"A": a.render(), "B": b.render(), "C": c.render(), "X": x}


def enumerate_histories(cfg):
    res = run_tlc("Session", cfg, timeout=3000)
    if res.error or res.invariant_violated:
        raise MachineryError("Session.tla failed on %s:\n%s" % (cfg, res.out[-1500:]))
    hs = []
    for raw in res.tuples("HISTORY"):
        v = tlaval.parse(raw)
        hs.append([[c[0], c[1]] for c in v[1]])
    return hs, res


def vacuity_guard():
    """The mutated model (no mode reset in Project()) must violate the invariant."""
    res = run_tlc("Session", "SessionMut.cfg", timeout=600, workers=4)
    if "HistoryIndependent" not in res.invariant_violated:
        raise MachineryError("SessionMut.cfg no longer violates HistoryIndependent: the Session model is vacuous")
    return res


def run_session(scr, texts, histories, share_parser=True, hashseed="0", pure=False, nproc=14):
    wd = tempfile.mkdtemp(prefix="spsess_")
    try:
        nproc = max(1, min(nproc, len(histories)))
        size = (len(histories) + nproc - 1) // nproc
        procs = []
        for i in range(nproc):
            chunk = histories[i * size:(i + 1) * size]
            if not chunk:
                continue
            jp = os.path.join(wd, "job%d.json" % i)
            op = os.path.join(wd, "out%d.jsonl" % i)
            os.mkdir(os.path.join(wd, "w%d" % i))
            json.dump({"texts": texts, "histories": chunk, "workdir": os.path.join(wd, "w%d" % i), "offset": i * size,
                       "share_parser": share_parser}, open(jp, "w"))
            env = env_for(scr, hooks=False, pure=pure, extra={"PYTHONHASHSEED": hashseed})
            procs.append((subprocess.Popen([PY, "-m", "harness.sessionrun", jp, op], env=env, cwd=wd,
                                           stdout=subprocess.DEVNULL, stderr=subprocess.PIPE, text=True), op))
        out = {}
        for p, op in procs:
            _, err = p.communicate(timeout=3000)
            if p.returncode != 0:
                raise MachineryError("session runner failed: " + (err or "")[-1500:])
            for line in open(op):
                r = json.loads(line)
                out[r["h"]] = r["obs"]
        return out
    finally:
        shutil.rmtree(wd, ignore_errors=True)


def check(prop, tier, replay=None):
    run = Run("C12", tier)
    run.cov["rule"] = ("every call history of Session.tla up to length 4 (quick: a seeded sample of 480; thorough: a seeded sample of 6 000 of the 28 701, plus 1 500 of length 5) over three accepted "
                       "texts (nested DAG with dated containers and alternatives; limits + two scenarios; the same tasks with the scenario value written on the parent scenario) and one rejected text; calls: parse, parse(schedule=False), "
                       "project.schedule() (also repeated), report generation (JSON + CSV), the CLI path run_scriptplan; all histories of a runner "
                       "share one interpreter; repeated under PYTHONHASHSEED 0 / 1 / 12345 and with the extensions blocked; every observation "
                       "(dates of all tasks in all scenarios, report bytes, generated files) must equal the fresh-process observation of the same text; "
                       "non-trivial = distinct history that schedules at least one project after another call")
    rng = random.Random(run.seed * 7 + 12)
    vac = vacuity_guard()
    run.add_tlc(vac)
    hs, res = enumerate_histories("Session.cfg")
    run.add_tlc(res)
    run.notes["histories_enumerated_by_tlc"] = len(hs)
    # histories every run replays whatever the sample: schedule() again / build first, then reports
    must = []
    for x in ("A", "B", "C"):
        must += [[["parse", x], ["schedule", x], ["report", x]], [["parse", x], ["schedule", x], ["schedule", x], ["report", x]],
                 [["parse_only", x], ["schedule", x], ["report", x]], [["parse", x], ["report", x], ["schedule", x], ["report", x]],
                 [["cli", x], ["parse", x], ["report", x]]]
    if tier == "quick":
        hs = must + rng.sample(hs, 480)
    else:
        hs5, res5 = enumerate_histories("Session5.cfg")
        run.add_tlc(res5)
        # (all 28 701 histories of length 4 under every configuration took more than an hour and a half once the texts had grown:
        #  a seeded sample, different for every VERIF_SEED)
        hs = must + rng.sample(hs, min(len(hs), 6000)) + rng.sample(hs5, 1500)
    texts = make_texts(rng)
    if replay:
        d = json.load(open(replay))
        texts, hs = d["texts"], [d["history"]]
    solo_h = [[["cli", "X"]], [["parse", "X"]]]
    for x in ("A", "B", "C"):
        solo_h += [[["parse", x]], [["parse_only", x]], [["parse", x], ["report", x]], [["cli", x]]]
    with scratch_build() as scr:
        # fresh-process observations: one process per solo history
        solo = {}
        for h in solo_h:
            o = run_session(scr, texts, [h], nproc=1)[0]
            solo[(h[-1][0], h[-1][1])] = o[-1]
        if solo[("parse", "X")]["err"] is not True or solo[("parse", "A")]["err"] or solo[("parse", "B")]["err"] or solo[("parse", "C")]["err"]:
            raise MachineryError("session texts: A/B/C must be accepted and X rejected")
        configs = [("share", True, "0", False)]
        if tier == "quick":
            configs += [("seed1", True, "1", False), ("pure", True, "0", True)]
        else:
            configs += [("seed1", True, "1", False), ("seed12345", True, "12345", False), ("pure", True, "0", True), ("newparser", False, "0", False)]
        obls, payload = [], {}
        for cname, share, seed, pure in configs:
            sub = hs if cname == "share" else hs[: max(100, len(hs) // 5)]
            got = run_session(scr, texts, sub, share_parser=share, hashseed=seed, pure=pure)
            for hi, h in enumerate(sub):
                obs = got[hi]
                run.evaluated()
                if len(h) > 1 and any(c[0] in ("parse", "schedule") for c in h[1:]):
                    run.nontrivial(phash([h, cname]))
                state = {}
                for ci, (c, o) in enumerate(zip(h, obs)):
                    op, x = c
                    key = "%s/h%d/c%d" % (cname, hi, ci)
                    payload[key] = {"texts": texts, "history": h, "config": cname, "call": ci}
                    if x == "X":
                        if not o["err"] and op != "cli":
                            run.violation(key, payload[key], {"why": "the rejected text was accepted after this history", "history": h})
                        elif op != "cli" and o.get("etext") != solo[("parse", "X")].get("etext") and not any(
                                isinstance(v["summary"], dict) and v["summary"].get("why", "").startswith("the diagnostic") for v in run.violations):
                            run.violation(key, payload[key], {"why": "the diagnostic of the rejected text differs from the one a fresh process gives (hash seed, earlier calls)",
                                                              "history": h, "config": cname, "got": (o.get("etext") or "")[:300], "fresh": (solo[("parse", "X")].get("etext") or "")[:300]})
                        if op == "cli":
                            obls.append({"id": key, "left": [], "right": [], "levs": solo[("cli", "X")]["rows"], "revs": o["rows"] or [[-1]]})
                        continue
                    if o["err"]:
                        run.violation(key, payload[key], {"why": "a call that succeeds in a fresh process raised %s after this history" % o.get("etype"), "history": h[: ci + 1]})
                        continue
                    if op == "parse":
                        state[x] = "scheduled"
                    elif op == "parse_only":
                        state[x] = "built"
                    elif op == "schedule":
                        state[x] = "scheduled"
                    ref = solo[("parse", x)] if state.get(x) == "scheduled" else solo[("parse_only", x)]
                    if op == "cli":
                        obls.append({"id": key, "left": [], "right": [], "levs": solo[("cli", x)]["rows"], "revs": o["rows"]})
                    elif op == "report":
                        obls.append({"id": key, "left": ref["final"], "right": o["final"], "levs": solo[("report", x)]["rows"], "revs": o["rows"]})
                    else:
                        obls.append({"id": key, "left": ref["final"], "right": o["final"]})
        verdicts, rres = relate.decide(obls)
        run.add_tlc(rres)
        run.cov["traces_validated_against_impl"] += len(obls)
        for o in obls:
            diff, fe = verdicts[o["id"]]
            if diff or fe:
                if len(run.violations) < 25:
                    run.violation(o["id"], payload[o["id"]], {"why": "observation after this history differs from the fresh-process observation",
                                                              "history": payload[o["id"]]["history"], "call": payload[o["id"]]["call"],
                                                              "tasks_that_differ": diff[:6], "report_or_file_row_that_differs": fe})
        for h in hs[:3]:
            run.sample({"history": h})
        run.notes["observations_compared"] = len(obls)
    return run.finish()
