"""Checks decided by the scheduler specification through trace validation (engine E1):
C01-C08, C10 (and the trace part of C11).  The spec-side exploration (Sched.tla over bounded
universes, engine E2) is added to the same evidence by harness/props_mc.py."""
import glob
import json
import re
import os
import random

from harness import e1, gen
from harness.build import scratch_build, MachineryError
from harness.common import Run, phash, load_known, VERIF

FIXTURES = sorted(glob.glob(os.path.join((os.environ.get("VERIF_REPO") or "/repo"), "tests/data/*.tjp")))

# profile name, quick count, thorough count
PLAN = {
    "C01": [("chain_subslot", 70, 2500), ("teams_alts", 30, 1000), ("alap_profile", 20, 800), ("alap_pack", 40, 1500), ("mixed_subslot", 40, 1500)],
    "C02": [("calendars", 90, 3500), ("dst_weekend", 40, 1500), ("group_hours", 25, 800), ("year_end", 30, 1200), ("group_matrix", 48, 432)],
    "C03": [("chain_subslot", 50, 2000), ("teams_alts", 50, 2000), ("alap_profile", 20, 800), ("limits_profile", 40, 1500), ("alap_pack", 30, 1000), ("mixed_subslot", 20, 800)],
    "C04": [("dags", 100, 4000), ("alap_profile", 40, 1500), ("container_gate", 15, 600), ("dup_leaf_ids", 15, 600), ("dup_alap", 15, 600), ("dags_alap", 30, 1000), ("staged_containers", 30, 1000), ("ms_bounds", 20, 800), ("gap_bounds", 30, 1000), ("jit", 25, 1000)],
    "C05": [("limits_profile", 110, 4000), ("year_end", 25, 1000)],
    "C06": [("chain_subslot", 60, 2000), ("alap_profile", 40, 1500), ("dags", 50, 1500), ("alap_pack", 30, 1000), ("ms_bounds", 40, 1500), ("mixed_subslot", 20, 800)],
    "C07": [("core_dialect", 110, 5000), ("container_gate", 25, 1000), ("gap_bounds", 20, 800), ("dst_weekend", 25, 1000)],
    "C08": [("core_dialect", 60, 2500), ("alap_profile", 40, 1500), ("calendars", 50, 1000), ("dup_alap", 20, 800), ("dags_alap", 40, 1500), ("staged_containers", 30, 1000), ("gap_bounds", 30, 1000), ("jit", 25, 1000)],
    "C10": [("trees", 60, 2500), ("dags", 30, 1200)],
}

RULES = {
    "C01": "generated projects with sub-slot efforts / teams / ALAP + repo fixtures; non-trivial = some slot of the final ledger holds portions of >= 2 tasks; distinct by hash of the abstract project",
    "C02": "generated calendars (own hours, several intervals, cross-midnight, day subsets, shifts, IANA zones around DST changes, leaves, vacations, bookings, ASAP+ALAP); non-trivial = a resource with own hours, zone or leaves was booked",
    "C03": "generated sub-slot efforts, efficiencies, teams, alternatives, ALAP; non-trivial = some task finished inside a slot (last booking cut) or is a team / alternative allocation",
    "C04": "generated nested DAGs with own / inherited / precedes edges, gaps, on-start, dated containers, ASAP and ALAP; non-trivial = >= 2 dependency edges between scheduled tasks",
    "C05": "generated daily / weekly limits on resources, groups, task subtrees, starts around year ends, overrunning projects; non-trivial = some limit counter reached its maximum (a booking was refused)",
    "C06": "generated offset / effort combinations, ASAP and ALAP, milestones; non-trivial = a task starts or ends strictly inside a slot, or is a milestone with predecessors",
    "C07": "core-dialect projects (slot-aligned calendars, whole-slot efforts) traced step by step against Sched semantics; non-trivial = >= 3 tasks with contention on a resource",
    "C08": "generated contention, leaves, zones, night shifts, ASAP and ALAP; non-trivial = some task had to skip at least one slot taken by another task",
    "C10": "generated task trees up to depth 6 with unschedulable leaves and resource groups; non-trivial = >= 2 nested containers",
}


def make_jobs(prop, tier, seed):
    rng = random.Random(seed * 1000003 + int(prop[1:]))
    jobs = []
    for name, q, t in PLAN[prop]:
        n = q if tier == "quick" else t
        for pid, p in getattr(gen, name)(rng, n):
            jobs.append({"id": "%s-%s" % (prop, pid), "text": p.render(), "scenarios": [0], "abstract": p.abstract(),
                         "profile": name})
    return jobs


def regress_jobs(prop):
    """Inputs that once exposed a (repaired) defect of this property: ordinary regression inputs."""
    out = []
    for f in sorted(glob.glob(os.path.join(VERIF, "regress", prop, "*.json"))):
        j = json.load(open(f))
        j["id"] = "regress-" + os.path.basename(f)[:-5]
        j["profile"] = "regress"
        out.append(j)
    return out


def fixture_jobs(tier):
    out = []
    for f in FIXTURES:
        b = os.path.basename(f)
        if b in ("math_torture.tjp", "tutorial.tjp") and tier == "quick":
            continue
        if b == "math_torture.tjp":
            continue          # 74k events: validated by the dedicated thorough step of C07
        out.append({"id": "fixture-" + b, "text": open(f).read(), "scenarios": "all", "profile": "fixture"})
    return out


def nontrivial(prop, rec):
    """Cheap structural test on the trace record (evidence book-keeping only)."""
    P = rec["project"]
    evs = rec["events"]
    if prop == "C01":
        return any(len(x["parts"]) >= 2 for x in rec.get("ledger", []))
    if prop == "C02":
        booked = {e["res"] for e in evs if e["ev"] == "Book"}
        return any(P["res"][r - 1]["cal"] == "hours" or len(P["res"][r - 1]["tz"]) > 1 or P["res"][r - 1]["leaves"]
                   for r in booked if r)
    if prop in ("C03", "C06"):
        cut = any(e["ev"] == "Finish" and 0 <= e["keptT"] < P["G"] * P["res"][e["res"] - 1]["effN"] for e in evs if e.get("res"))
        team = any(len(t["alloc"]) > 1 or t["alt"] for t in P["tasks"])
        ms = any(t["leaf"] and t["effort"] == 0 and t["deps"] for t in P["tasks"])
        return cut or (team if prop == "C03" else ms)
    if prop == "C04":
        fin = rec.get("final", [])
        n = 0
        for i, t in enumerate(P["tasks"]):
            for d in t["deps"]:
                if d["p"] and i < len(fin) and fin[i]["sched"] and fin[d["p"] - 1]["sched"]:
                    n += 1
        return n >= 2
    if prop == "C05":
        has = any(t["limits"] for t in P["tasks"]) or any(r["limits"] for r in P["res"])
        if not has:
            return False
        # a booking was refused: some task's consecutive bookings on one resource skip an on-shift slot gap > 1 day
        slots = {}
        for e in evs:
            if e["ev"] == "Book":
                slots.setdefault((e["task"], e["res"]), []).append(e["slot"])
        return any(len(v) >= 2 for v in slots.values())
    if prop == "C07":
        return len([t for t in P["tasks"] if t["leaf"]]) >= 3
    if prop == "C08":
        first = {}
        cur = {}
        for e in evs:
            if e["ev"] == "Begin":
                cur[e["task"]] = e["cursor"]
            if e["ev"] == "Book" and e["task"] not in first:
                first[e["task"]] = e["slot"]
        return any(first[t] != cur.get(t, first[t]) for t in first)
    if prop == "C10":
        conts = [t for t in P["tasks"] if not t["leaf"]]
        return len(conts) >= 2 and any(t["parent"] for t in conts)
    return True


def is_violation(prop, rec, v):
    """(violated?, summary) for property prop on one validated trace."""
    if prop == "C07":
        if not v.core():
            return False, None
        if v.conf and v.final_ok:
            return False, None
        return True, {"trace": v.id, "first_divergence": v.div, "final_equal": v.final_ok,
                      "why": "core-dialect project: the implementation's step sequence / final dates differ from the reference list schedule"}
    if prop == "C02" and not v.dialect["aligned"]:
        return False, None      # class of known finding KF-C02-misaligned (replayed separately)
    hits = [h for h in v.of(prop) if "[KF-" not in str(h[2])]      # classes of open known findings are decided by the spec and reported apart
    if hits:
        return True, {"trace": v.id, "failed": [list(h[:3]) + [str(h[3])[:200]] for h in hits[:5]]}
    return False, None


def in_scope(prop, v):
    if prop == "C07":
        return v.core()
    if prop == "C02":
        return v.dialect["aligned"]
    return True


def run_known(run, scr, prop):
    """Replay the witnesses of open known findings of this property (KNOWN-FINDING lines)."""
    for kf in load_known():
        if kf["property"] != prop or kf["status"] != "open" or kf.get("engine", "e1") != "e1":
            continue
        text = open(os.path.join(VERIF, kf["witness"])).read()
        recs = e1.run_impl(scr, [{"id": "witness-" + kf["id"], "text": text, "scenarios": [0]}], nproc=1)
        vs, res = e1.validate(recs, workers=2)
        run.add_tlc(res)
        v = vs.get("witness-" + kf["id"])
        if v is not None and v.of(prop):
            run.known("%s: %s (witness %s)" % (kf["id"], kf["what"], kf["witness"]))
        else:
            run.notes.setdefault("known_findings_not_reproduced", []).append(kf["id"])


def check(prop, tier, replay=None):
    run = Run(prop, tier)
    run.cov["rule"] = RULES[prop]
    run.assumptions = [
        "abstract project of generated inputs comes from the generator, not from the parser (parser disagreements are listed under absdiff)",
        "for repository fixtures the abstract project is extracted from the parsed model (parser trusted there)",
        "time-zone step functions come from CPython zoneinfo / the OS tz database",
        "TLC integers are 32 bit: generators keep seconds, ticks and 1/L-second counters below 2^31",
    ]
    with scratch_build() as scr:
        if replay:
            job = json.load(open(replay))
            jobs = [job]
        else:
            jobs = make_jobs(prop, tier, run.seed) + fixture_jobs(tier) + regress_jobs(prop)
        recs = e1.run_impl(scr, jobs, nproc=14)
        by_id = {j["id"]: j for j in jobs}
        bad_status = [r for r in recs if r.get("status") not in ("ok",)]
        for r in bad_status:
            if r.get("status") in ("lost",):
                raise MachineryError("runner lost job %s: %s" % (r["id"], r.get("error")))
            if r.get("status") == "crash" and r.get("phase") in ("extract", "runner"):
                raise MachineryError("model extraction failed in the runner for %s:\n%s" % (r["id"], r.get("error", "")[-600:]))
        unobserved = [r["id"] for r in recs if "project" not in r]
        if unobserved:
            # generated inputs are valid by construction and fixtures are accepted on the unchanged tree: a run that
            # leaves no trace cannot be judged for this property (C11 is the property that judges rejections / crashes)
            run.notes["runs_without_trace"] = unobserved[:10]
            if not replay and len(unobserved) > len(recs) // 10:
                raise MachineryError("%d of %d runs produced no trace (first: %s %s)" % (
                    len(unobserved), len(recs), unobserved[0], [r.get("error", "")[-300:] for r in recs if r["id"] == unobserved[0]]))
        drift = 0
        for r in recs:
            ok, msg = e1.hooks_complete(r)
            if not ok:
                drift += 1
                run.notes.setdefault("hook_drift", []).append({"trace": r["id"], "what": msg[:200]})
        if drift and not replay and drift > len(recs) // 2:
            raise MachineryError("hook events do not explain the final ledger on most traces: %s" % run.notes["hook_drift"][:2])
        vs, res = e1.validate(recs, workers=16)
        run.add_tlc(res)
        run.cov["traces_validated_against_impl"] += len(vs)
        open_known = {kf["id"] for kf in load_known() if kf["property"] == prop and kf["status"] == "open"}
        absdiff = 0
        for r in recs:
            if "project" not in r:
                continue
            v = vs[r["id"]]
            run.evaluated()
            if r.get("absdiff"):
                absdiff += 1
                run.notes.setdefault("parser_disagreements", []).append({"trace": r["id"], "diff": r["absdiff"][:3]})
            if not in_scope(prop, v):
                run.notes["out_of_scope"] = run.notes.get("out_of_scope", 0) + 1
                continue
            if nontrivial(prop, r):
                run.nontrivial(phash(r["project"]))
            viol, summary = is_violation(prop, r, v)
            for h in v.of(prop):
                m = re.search(r"\[(KF-[A-Za-z0-9-]+)\]", str(h[2]))
                if m and m.group(1) in open_known:
                    run.notes.setdefault("traces_in_class_of_open_known_finding", {}).setdefault(m.group(1), []).append(r["id"])
                elif m and not viol:
                    # the spec names a finding class that known_findings.json does not list as open: an ordinary violation
                    viol, summary = True, {"trace": v.id, "failed": [list(h[:3]) + [str(h[3])[:200]]]}
            if viol:
                job = by_id.get(r["id"].split("#sc")[0], {})
                run.violation(r["id"], {"id": r["id"].split("#sc")[0], "text": job.get("text"), "abstract": job.get("abstract"),
                                        "scenarios": job.get("scenarios", [0])}, summary)
            other = v.tags() - {prop}
            if other:
                run.notes.setdefault("other_flags", {})
                for t in other:
                    run.notes["other_flags"][t] = run.notes["other_flags"].get(t, 0) + 1
            if not v.conf and prop != "C07":
                run.notes["trace_shape_drift"] = run.notes.get("trace_shape_drift", 0) + 1
            if len(run.cov["samples"]) < 3 and nontrivial(prop, r):
                run.sample({"trace": r["id"], "tasks": [{k: t[k] for k in ("name", "effort", "alloc", "deps", "prio")} for t in r["project"]["tasks"]][:6],
                            "events": len(r["events"]), "verdict": v.summary()})
        if not replay and prop in MC_PLAN:
            run_universes(run, scr, prop, tier)
        if not replay and prop in ("C01", "C06"):
            run_ledger(run, scr, prop, tier)
        if not replay:
            run_known(run, scr, prop)
    return run.finish()


# ----------------------------------------------------------------------------------------------
# Engine E2: bounded universes of Sched.tla; all properties are invariants of the spec there, and every
# terminal state is replayed into the real code (spec -> code).  (module, quick cfg, thorough cfg, project length)
# mode "final": compare final dates with the terminal state (C07: equality with the reference is the property);
# mode "trace": every project of the universe is traced and judged by the property predicates of TraceSched
MC_PLAN = {
    "C02": [("MC_Cal", "MC_Cal.cfg", "MC_CalFull.cfg", "+2w", "trace")],
    "C07": [("MC_Core", "MC_Core.cfg", "MC_CoreFull.cfg", "+1w", "final"), ("MC_Tree", "MC_Tree.cfg", "MC_TreeFull.cfg", "+1w", "final"),
            ("MC_Week", "MC_WeekTiny.cfg", "MC_WeekFull.cfg", "+22d", "final"), ("MC_Events", "MC_Events.cfg", "MC_Events.cfg", "+1w", "final")],
    "C10": [("MC_Tree", "MC_Tree.cfg", "MC_TreeFull.cfg", "+1w", "trace"), ("MC_Events", "MC_Events.cfg", "MC_Events.cfg", "+1w", "trace")],
    "C01": [("MC_SubSlot", "MC_SubSlotTiny.cfg", "MC_SubSlot.cfg", "+1w", "trace"), ("MC_Team", None, "MC_Team.cfg", "+1w", "trace")],
    "C03": [("MC_SubSlot", None, "MC_SubSlot.cfg", "+1w", "trace"), ("MC_Alt", "MC_Alt.cfg", "MC_AltFull.cfg", "+1w", "trace"),
            ("MC_Team", "MC_TeamTiny.cfg", "MC_TeamFull.cfg", "+1w", "trace")],
    "C06": [("MC_SubSlot", None, "MC_SubSlot.cfg", "+1w", "trace"), ("MC_Alap", "MC_AlapTiny.cfg", "MC_Alap.cfg", "+1w", "trace")],
    "C08": [("MC_Alap", "MC_AlapTiny.cfg", "MC_Alap.cfg", "+1w", "trace"), ("MC_Jit", "MC_JitTiny.cfg", "MC_Jit.cfg", "+1w", "trace"), ("MC_Core", None, "MC_Core.cfg", "+1w", "trace"),
            ("MC_Cal", None, "MC_CalFull.cfg", "+2w", "trace")],
    "C04": [("MC_Alap", "MC_AlapTiny.cfg", "MC_AlapFull.cfg", "+1w", "trace"), ("MC_Jit", None, "MC_Jit.cfg", "+1w", "trace"), ("MC_Tree", None, "MC_TreeFull.cfg", "+1w", "trace")],
    "C05": [("MC_Limits", "MC_LimitsTiny.cfg", "MC_Limits.cfg", "+2w", "trace"), ("MC_Week", "MC_WeekTiny.cfg", "MC_WeekFull.cfg", "+22d", "trace")],
}


# universes whose week is not the week of 2024-01-01 (a Monday 00:00 is required: mow = 0)
UNIVERSE_START = {"MC_Cal": (2024, 3, 4)}        # the week in which America/New_York switches to DST (Sunday 07:00 UTC)


def run_universes(run, scr, prop, tier):
    from harness import e2
    from datetime import datetime, timedelta
    for module, qcfg, tcfg, length, mode in MC_PLAN[prop]:
        cfg = qcfg if tier == "quick" else tcfg
        if cfg is None:
            continue
        res, terms = e2.run_universe(module, cfg, timeout=6000)
        run.add_tlc(res)
        if res.invariant_violated:
            raise MachineryError("the specification violates its own invariant %s on %s (spec defect, not a verdict about the code):\n%s"
                                 % (res.invariant_violated, module, e2.strip_terminals(res.out)[-1500:]))
        if not terms:
            raise MachineryError("%s produced no terminal states" % module)
        if mode == "final":
            n, mism = e2.replay_terminals(scr, terms, length=length, start=datetime(*UNIVERSE_START.get(module, (2024, 1, 1))))
            run.cov["traces_validated_against_impl"] += n
            run.cov["evaluations"] += n
            run.notes.setdefault("universes", []).append({"module": module, "projects": n, "states": res.distinct, "disagree": len(mism)})
            for t in terms:
                if len([x for x in t["project"]["tasks"] if x["leaf"]]) >= 3:
                    run.nontrivial(phash(t["project"]["tasks"]))
            for m in mism[:20]:
                run.violation("%s-u%06d" % (module, m["idx"]), {"id": "%s-u%06d" % (module, m["idx"]), "text": m["text"], "scenarios": [0]},
                              {"universe": module, "why": "final dates of the implementation differ from the terminal state of Sched.tla",
                               "expected": m["expected"], "got": m["got"]})
            if mism[20:]:
                run.notes["more_disagreements"] = len(mism) - 20
        else:
            jobs = []
            for i, t in enumerate(terms):
                A = t["project"]
                gen_abs = {"tasks": A["tasks"], "res": [dict(r, tzname=r.get("tzname", "")) for r in A["res"]], "vac": A["vac"], "gleaves": A["gleaves"], "alap": A["alap"]}
                jobs.append({"id": "%s-%s-u%06d" % (prop, module, i), "scenarios": [0], "abstract": gen_abs,
                             "text": gen.render_abstract(A, length=length, start=datetime(*UNIVERSE_START.get(module, (2024, 1, 1))) + timedelta(minutes=A.get("mow", 0)))})
            recs = e1.run_impl(scr, jobs, nproc=14)
            vs, res2 = e1.validate(recs)
            run.add_tlc(res2)
            run.cov["traces_validated_against_impl"] += len(vs)
            by_id = {j["id"]: j for j in jobs}
            bad = 0
            for r in recs:
                if "project" not in r:
                    raise MachineryError("universe project rejected by the implementation: %s %s" % (r["id"], r.get("error", "")[-300:]))
                run.evaluated()
                v = vs[r["id"]]
                if nontrivial(prop, r):
                    run.nontrivial(phash(r["project"]["tasks"]))
                viol, summary = is_violation(prop, r, v)
                if viol:
                    bad += 1
                    if bad <= 20:
                        job = by_id[r["id"]]
                        run.violation(r["id"], {"id": job["id"], "text": job["text"], "abstract": job["abstract"], "scenarios": [0]}, summary)
            # spec -> code: final dates of the implementation vs the terminal state of Sched (informational here: equality with the
            # reference is C07's claim and only for its dialect; a disagreement elsewhere is a modelling gap to close, not a verdict)
            disagree = 0
            rec_by = {r["id"]: r for r in recs}
            for i, t in enumerate(terms):
                r = rec_by.get("%s-%s-u%06d" % (prop, module, i))
                exp = [(f["sched"], f["start"] if f["sched"] else -1, f["end"] if f["sched"] else -1) for f in t["final"]]
                have = [(f["sched"], f["start"] if f["sched"] else -1, f["end"] if f["sched"] else -1) for f in (r or {}).get("final", [])]
                if exp != have:
                    disagree += 1
            run.notes.setdefault("universes", []).append({"module": module, "projects": len(jobs), "states": res.distinct, "violating": bad,
                                                          "mode": "every project traced and judged by TraceSched",
                                                          "final_dates_differ_from_Sched_tla": disagree,
                                                          "steps_differ_from_SchedCore": len([1 for v in vs.values() if not v.conf])})
        run.cov["exhaustive"] = True


# ----------------------------------------------------------------------------------------------
# Engine E3: one slot of one resource.  Apalache proves the no-double-booking invariant inductive for every
# capacity; TLC enumerates every operation sequence of a small instance; each is replayed into the real ledger.
def run_ledger(run, scr, prop, tier):
    import subprocess
    import tempfile
    import shutil
    from harness import tlaval
    from harness.build import env_for, PY
    from harness.tlc import run_tlc, SPEC_DIR
    res = run_tlc("MC_SlotLedgerR", "MC_SlotLedgerR.cfg", timeout=900)
    if res.error or res.invariant_violated:
        raise MachineryError("SlotLedger violates its own invariant:\n" + res.out[-1500:])
    run.add_tlc(res)
    hists = []
    for raw in res.tuples("LEDGERHIST"):
        v = tlaval.parse(raw)
        hists.append(v[1])
    if not hists:
        raise MachineryError("SlotLedger printed no histories")
    wd = tempfile.mkdtemp(prefix="spled_")
    try:
        json.dump({"cap": 6, "hists": hists}, open(os.path.join(wd, "h.json"), "w"))
        p = subprocess.run([PY, "-m", "harness.ledgerrun", os.path.join(wd, "h.json"), os.path.join(wd, "o.json")],
                           env=env_for(scr, hooks=False), cwd=wd, stdout=subprocess.PIPE, stderr=subprocess.PIPE, text=True, timeout=1800)
        if p.returncode != 0:
            raise MachineryError("ledger runner failed: " + p.stderr[-1500:])
        out = json.load(open(os.path.join(wd, "o.json")))
        apa = None
        if prop == "C01":
            apa = []
            # (the model checker's parser unpacks the standard modules into java.io.tmpdir: keep that inside the scratch directory)
            aenv = dict(os.environ, TMPDIR=wd, JAVA_TOOL_OPTIONS=("-Djava.io.tmpdir=%s " % wd + os.environ.get("JAVA_TOOL_OPTIONS", "")).strip())
            for args in (["--init=Init", "--length=0"], ["--init=IndInv", "--length=1"]):
                a = subprocess.run(["timeout", "300", "apalache-mc", "check", "--cinit=CInit", "--inv=IndInv", "--out-dir=" + os.path.join(wd, "apa")] + args +
                                   ["MC_SlotLedgerU.tla"], cwd=SPEC_DIR, env=aenv, stdout=subprocess.PIPE, stderr=subprocess.STDOUT, text=True)
                apa.append("NoError" if "The outcome is: NoError" in a.stdout else ("timeout" if a.returncode == 124 else "FAILED"))
            shutil.rmtree(os.path.join(SPEC_DIR, "_apalache-out"), ignore_errors=True)
    finally:
        shutil.rmtree(wd, ignore_errors=True)
    run.cov["evaluations"] += out["histories"]
    run.cov["traces_validated_against_impl"] += out["histories"]
    for h in hists:
        if len(h) >= 3:
            run.nontrivial(phash(h))
    note = {"operation_sequences_replayed": out["histories"], "calls": out["calls"], "disagreeing": out["nbad"]}
    if apa is not None:
        note["apalache_inductive_invariant_any_capacity"] = {"Init=>IndInv": apa[0], "IndInv/\\Next=>IndInv'": apa[1]}
        if "FAILED" in apa:
            raise MachineryError("Apalache no longer discharges the inductive invariant of SlotLedger: %s" % apa)
    run.notes["slot_ledger"] = note
    for b in out["bad"][:10]:
        mine = (prop == "C01" and not b["ledger_ok"]) or (prop == "C06" and not b["end_ok"])
        if mine:
            run.violation("ledger-h%d" % b["hist"], b, {"why": "replaying a SlotLedger operation sequence into the real ledger: " +
                                                          ("used / portion differ from the spec state" if prop == "C01" else "precise end differs from slot start + base + kept"),
                                                          "history": b["history"], "got": b["got"], "want": b["want"]})
