"""In-scratch runner without tracing: parse + schedule texts, report (scheduled, start, end) per task.

  python -m harness.finalrun JOBS.jsonl OUT.jsonl      (PYTHONPATH=<scratch>:/verif, hooks off)
"""
import io
import json
import sys
import contextlib
import traceback

from harness.build import block_cython_if_requested

block_cython_if_requested()
from scriptplan.parser.tjp_parser import ProjectFileParser  # noqa: E402


def secs(p, dt):
    return int(round((dt - p["start"]).total_seconds())) if dt else -1


def main(jobs_path, out_path):
    parser = ProjectFileParser()
    with open(jobs_path) as f, open(out_path, "w") as out:
        for line in f:
            line = line.strip()
            if not line:
                continue
            job = json.loads(line)
            rec = {"id": job["id"]}
            try:
                with contextlib.redirect_stderr(io.StringIO()), contextlib.redirect_stdout(io.StringIO()):
                    p = parser.parse(job["text"])
                sc = job.get("sc", 0)
                rec["final"] = [{"name": t.fullId, "sched": bool(t.get("scheduled", sc)), "start": secs(p, t.get("start", sc)),
                                 "end": secs(p, t.get("end", sc))} for t in p.tasks]
                rec["status"] = "ok"
            except BaseException:  # noqa: BLE001
                rec["status"] = "crash"
                rec["error"] = traceback.format_exc()[-800:]
            out.write(json.dumps(rec) + "\n")


if __name__ == "__main__":
    main(sys.argv[1], sys.argv[2])
