"""Scratch build of /repo's *current working tree* (hooks enabled by env at run time).

Every check calls `scratch_build()`: the tree is rsync'ed (without .git, build output, *.so,
__pycache__) into a fresh mktemp directory outside /repo and /verif, the three Cython
extensions are rebuilt from the .pyx sources there, and the directory is removed when the
context exits.  Nothing is kept under /tmp between commands.
"""
import contextlib
import os
import shutil
import subprocess
import sys
import tempfile

REPO = (os.environ.get("VERIF_REPO") or "/repo")
if not os.path.isdir(os.path.join(REPO, "scriptplan")):
    # (an empty or wrong VERIF_REPO once made a check copy the whole file system into its scratch directory)
    raise SystemExit("VERIF_REPO=%r is not a checkout of scriptplan" % REPO)
PY = os.environ.get("VERIF_PY", "/venv/bin/python")
GUARD = "SCRIPTPLAN_VERIF"


class MachineryError(Exception):
    """Raised for failures of the verification machinery itself (exit code 2)."""


def _scratch_root():
    # honour TMPDIR but never live inside /repo or /verif
    base = os.environ.get("VERIF_SCRATCH_BASE") or tempfile.gettempdir()
    return base


@contextlib.contextmanager
def scratch_build(native=True, keep=False):
    """Yield the path of a scratch copy of /repo with freshly built extensions.

    native=False skips the extension build (pure-Python fallbacks only).
    """
    d = tempfile.mkdtemp(prefix="spverif_", dir=_scratch_root())
    try:
        dst = os.path.join(d, "repo")
        subprocess.run(
            ["rsync", "-a", "--exclude", ".git", "--exclude", "build", "--exclude", "*.so",
             "--exclude", "__pycache__", "--exclude", "*.egg-info", "--exclude", ".pytest_cache",
             REPO + "/", dst + "/"],
            check=True)
        # the .pyx files are the source: never let a stale generated .c stand in for them
        cy = os.path.join(dst, "scriptplan", "_cython")
        for f in os.listdir(cy):
            if f.endswith(".c"):
                os.unlink(os.path.join(cy, f))
        if native:
            r = subprocess.run([PY, "setup.py", "build_ext", "--inplace", "-j", "3"], cwd=dst,
                               stdout=subprocess.PIPE, stderr=subprocess.STDOUT, text=True)
            sos = [f for f in os.listdir(os.path.join(dst, "scriptplan", "_cython")) if f.endswith(".so")]
            if r.returncode != 0 or len(sos) < 3:
                raise MachineryError("extension build failed in scratch copy:\n" + r.stdout[-3000:])
            shutil.rmtree(os.path.join(dst, "build"), ignore_errors=True)
        yield dst
    finally:
        if not keep:
            shutil.rmtree(d, ignore_errors=True)


def env_for(scratch, hooks=True, pure=False, extra=None):
    """Environment for a subprocess that must import the scratch copy."""
    e = dict(os.environ)
    e["PYTHONPATH"] = scratch + os.pathsep + os.path.dirname(os.path.dirname(os.path.abspath(__file__)))
    e.setdefault("PYTHONHASHSEED", "0")
    e["PYTHONDONTWRITEBYTECODE"] = "1"
    if hooks:
        e[GUARD] = "1"
    else:
        e.pop(GUARD, None)
    if pure:
        e["VERIF_BLOCK_CYTHON"] = "1"
    else:
        e.pop("VERIF_BLOCK_CYTHON", None)
    if extra:
        e.update(extra)
    return e


def block_cython_if_requested():
    """Called first thing by in-scratch runners: make `scriptplan._cython.*_cy` unimportable."""
    if os.environ.get("VERIF_BLOCK_CYTHON") != "1":
        return False
    import importlib.abc

    class _Block(importlib.abc.MetaPathFinder):
        def find_spec(self, name, path, target=None):
            if name.startswith("scriptplan._cython.") and name.endswith("_cy"):
                raise ImportError("blocked by verification harness: " + name)
            return None

    sys.meta_path.insert(0, _Block())
    return True
