"""In-scratch runner for engine E3: replays operation sequences of spec/SlotLedger.tla (BookAt / Finish on one
slot of one resource) into the real ResourceScenario / TaskScenario objects and compares the ledger after
every call with the state of the spec.

  python -m harness.ledgerrun HISTS.json OUT.json      HISTS = {"cap": 6, "hists": [[["book",t,o,used,part],...],...]}
"""
import json
import sys
from datetime import timedelta

from harness.build import block_cython_if_requested

block_cython_if_requested()
from scriptplan.parser.tjp_parser import ProjectFileParser  # noqa: E402

TEXT = '''project p "P" 2024-01-01 +1w {
  timezone "UTC"
}
resource r0 "r0" {}
task a "a" { effort 10h allocate r0 }
task b "b" { effort 10h allocate r0 }
task c "c" { effort 10h allocate r0 }
'''


def main(inp, outp):
    job = json.load(open(inp))
    cap = job["cap"]
    G = 3600
    tick = G / cap
    p = ProjectFileParser().parse(TEXT, schedule=False)
    p._extendProjectEndIfNeeded()
    p.initScoreboards()
    res = list(p.resources)[0]
    rs = res.data[0]
    rs.prepareScheduling()
    tasks = list(p.tasks)
    s = 9                                  # Monday 09:00-10:00
    slot_start = p.idxToDate(s)
    bad = []
    n_calls = 0
    for hi, hist in enumerate(job["hists"]):
        rs.slotSecondsUsed.clear()
        rs.slotTaskUsage.clear()
        rs.scoreboard[s] = None
        for t in tasks:
            t.data[0].prepareScheduling()
        for ci, (op, t, arg, used_x, part_x) in enumerate(hist):
            task = tasks[t - 1]
            ts = task.data[0]
            n_calls += 1
            u0 = rs.slotSecondsUsed.get(s, 0.0)
            own0 = sum(x for tt, x in rs.slotTaskUsage.get(s, []) if tt is task)
            end_ok = True
            if op == "book":
                ts.currentSlotIdx = s
                ts.slotStartOffset = arg * tick
                ts._offsetSlotIdx = s
                ts.doneEffort = 0.0
                ts.bookResource(res)
            else:
                ts.currentSlotIdx = s
                ts._lastBookedResource = res
                ts._selectedResources = [res]
                end, _ = ts._calculatePreciseEndTimeAndRelease(arg * tick / 3600.0, 0.0, True)
                want = slot_start + timedelta(seconds=round(u0 - own0 + arg * tick))
                end_ok = (end == want)
            used = rs.slotSecondsUsed.get(s, 0.0) / tick
            part = sum(x for tt, x in rs.slotTaskUsage.get(s, []) if tt is task) / tick
            led_ok = abs(used - used_x) < 1e-9 and abs(part - part_x) < 1e-9
            if not (led_ok and end_ok):
                bad.append({"hist": hi, "call": ci, "history": hist[: ci + 1], "ledger_ok": led_ok, "end_ok": end_ok,
                            "got": [used, part], "want": [used_x, part_x]})
                break
    json.dump({"calls": n_calls, "histories": len(job["hists"]), "bad": bad[:50], "nbad": len(bad)}, open(outp, "w"))


if __name__ == "__main__":
    main(sys.argv[1], sys.argv[2])
