"""Parser for TLA+ values as TLC prints them (PrintT output, trace files).

Tuples/sequences -> list, sets -> ('set', [...]) flattened to list with marker, records -> dict,
functions (a :> b @@ c :> d) -> dict with tuple/str keys, strings, ints, booleans.
"""


class Set(list):
    pass


def parse(text):
    v, i = _val(text, _ws(text, 0))
    return v


def _ws(s, i):
    n = len(s)
    while i < n and s[i] in " \t\r\n":
        i += 1
    return i


def _val(s, i):
    i = _ws(s, i)
    if s.startswith("<<", i):
        i += 2
        out = []
        i = _ws(s, i)
        if s.startswith(">>", i):
            return out, i + 2
        while True:
            v, i = _val(s, i)
            out.append(v)
            i = _ws(s, i)
            if s.startswith(">>", i):
                return out, i + 2
            if s[i] != ",":
                raise ValueError("expected , or >> at %d: %r" % (i, s[i:i + 30]))
            i += 1
    c = s[i]
    if c == "{":
        i += 1
        out = Set()
        i = _ws(s, i)
        if s[i] == "}":
            return out, i + 1
        while True:
            v, i = _val(s, i)
            out.append(v)
            i = _ws(s, i)
            if s[i] == "}":
                return out, i + 1
            if s[i] != ",":
                raise ValueError("expected , or } at %d: %r" % (i, s[i:i + 30]))
            i += 1
    if c == "[":
        i += 1
        out = {}
        i = _ws(s, i)
        if s[i] == "]":
            return out, i + 1
        while True:
            i = _ws(s, i)
            j = i
            while s[j].isalnum() or s[j] == "_":
                j += 1
            key = s[i:j]
            i = _ws(s, j)
            if not s.startswith("|->", i):
                raise ValueError("expected |-> at %d: %r" % (i, s[i:i + 30]))
            v, i = _val(s, i + 3)
            out[key] = v
            i = _ws(s, i)
            if s[i] == "]":
                return out, i + 1
            if s[i] != ",":
                raise ValueError("expected , or ] at %d: %r" % (i, s[i:i + 30]))
            i += 1
    if c == "(":
        # function literal: ( k :> v @@ k :> v )
        i += 1
        out = {}
        while True:
            k, i = _val(s, i)
            i = _ws(s, i)
            if not s.startswith(":>", i):
                raise ValueError("expected :> at %d: %r" % (i, s[i:i + 30]))
            v, i = _val(s, i + 2)
            out[_hashable(k)] = v
            i = _ws(s, i)
            if s.startswith("@@", i):
                i += 2
                continue
            if s[i] == ")":
                return out, i + 1
            raise ValueError("expected @@ or ) at %d: %r" % (i, s[i:i + 30]))
    if c == '"':
        j = i + 1
        buf = []
        while s[j] != '"':
            if s[j] == "\\":
                buf.append(s[j + 1])
                j += 2
            else:
                buf.append(s[j])
                j += 1
        return "".join(buf), j + 1
    if s.startswith("TRUE", i):
        return True, i + 4
    if s.startswith("FALSE", i):
        return False, i + 5
    j = i
    if s[j] == "-":
        j += 1
    while j < len(s) and s[j].isdigit():
        j += 1
    if j > i and s[i:j] != "-":
        return int(s[i:j]), j
    # bare identifier (model value)
    j = i
    while j < len(s) and (s[j].isalnum() or s[j] == "_"):
        j += 1
    if j > i:
        return s[i:j], j
    raise ValueError("cannot parse value at %d: %r" % (i, s[i:i + 40]))


def _hashable(k):
    if isinstance(k, list):
        return tuple(_hashable(x) for x in k)
    return k
