"""In-scratch runner for the algebra engine (C17, C13): calls the slot/time conversion, run scanning
and working-hours functions of the real code over a bounded grid, once with the compiled fast
paths and once with the pure-Python fallbacks, and writes the calls with both results as batches
for spec/Algebra.tla.

  python -m harness.algrun OUT.ndjson quick|thorough [seed]
"""
import itertools
import json
import random
import sys
from datetime import datetime, timedelta

from harness.build import block_cython_if_requested

block_cython_if_requested()

from scriptplan.scheduler import scoreboard as SB  # noqa: E402
from scriptplan.core import project as PJ
from scriptplan.core import working_hours as WH
from scriptplan.utils.time import TimeInterval

ERR = -999999
NATIVE = bool(SB._USE_CYTHON and PJ._USE_CYTHON and WH._USE_CYTHON)


def both(fn):
    """Result of fn() under the compiled and under the pure implementation."""
    out = {}
    for name, flag in (("cy", True), ("py", False)):
        SB._USE_CYTHON = flag and NATIVE
        PJ._USE_CYTHON = flag and NATIVE
        WH._USE_CYTHON = flag and NATIVE
        try:
            out[name] = fn()
        except IndexError:
            out[name] = ERR
        except (OverflowError, ValueError, OSError):
            out[name] = ERR - 1        # raised, but not the documented rejection
    SB._USE_CYTHON = PJ._USE_CYTHON = WH._USE_CYTHON = NATIVE
    return out


def wide(r):
    """Values that may exceed 32 bits (TLC's integers and its JSON reader wrap them): two limbs each."""
    return {k: [v // 2 ** 30, v % 2 ** 30] for k, v in r.items()}


def secs(start, dt):
    return int(round((dt - start).total_seconds()))


def conv_calls(tier, rng):
    starts = [datetime(2024, 1, 1), datetime(2024, 2, 29, 23, 30), datetime(2025, 12, 31, 13, 7)]
    if tier == "thorough":
        starts += [datetime(2026, 3, 29, 1, 0), datetime(2021, 1, 1, 0, 0, 30)]
    calls = []
    for g in (60, 300, 900, 1800, 3600, 420, 1500):          # 7 and 25 minutes do not divide a day
        spans = [g, 3 * g, 3 * g + 1, 3 * g + g // 2, 10 * g - 1, 7200, 86400]
        if g in (420, 1500):
            spans = [3 * g + 1, 86400 + 5 * g, 2 * 86400 + 7 * g - 60]      # indices more than one and two days from the start
        if tier == "thorough":
            spans += [86400 + g // 3, 3 * 86400, 2 * g - 1, 5 * g + 59]
        for span in sorted(set(spans)):
            for start in starts[: (len(starts) if span <= 7200 or tier == "thorough" else 1)]:
                end = start + timedelta(seconds=span)
                sb = SB.Scoreboard(start, end, g, None)
                calls.append(dict(op="size", g=g, span=span, py=sb.size, cy=sb.size))
                size = sb.size
                idxs = list(range(-2, min(size + 2, 40))) + list(range(max(40, size - 3), size + 2))
                for force in (False, True):
                    for x in idxs:
                        r = both(lambda: secs(start, sb.idxToDate(x, force)))
                        calls.append(dict(op="i2d", g=g, span=span, x=x, force=force, **r))
                ks = list(range(-2, min(size + 2, 30))) + list(range(max(30, size - 3), size + 2))
                ts = sorted({k * g + d for k in ks for d in (-1, 0, 1, g // 2, g - 1)})
                for force in (False, True):
                    for t in ts:
                        d = start + timedelta(seconds=t)
                        r = both(lambda: sb.dateToIdx(d, force))
                        calls.append(dict(op="d2i", g=g, span=span, x=t, force=force, **r))
                # project-level conversions (instants of the window only; no range check there)
                p = PJ.Project("p", "P", "1")
                p["start"] = start
                p["end"] = end
                p.attributes["scheduleGranularity"] = g
                r = both(lambda: p.scoreboardSize())
                calls.append(dict(op="psize", g=g, span=span, **r))
                for t in [t for t in ts if 0 <= t <= span]:
                    d = start + timedelta(seconds=t)
                    r = both(lambda: p.dateToIdx(d))
                    calls.append(dict(op="pd2i", g=g, span=span, x=t, **r))
                for x in [i for i in idxs if 0 <= i < size]:
                    r = both(lambda: secs(start, p.idxToDate(x)))
                    calls.append(dict(op="pi2d", g=g, span=span, x=x, **r))
                # instants before the project start (a pinned start or a leave may lie there): both implementations must agree
                for t in (-1, -g // 2, -g + 1, -g, -g - 1, -3 * g - g // 3, -86400 - 7):
                    d = start + timedelta(seconds=t)
                    r = both(lambda: p.dateToIdx(d))
                    calls.append(dict(op="pd2ix", g=g, span=span, x=t, **wide(r)))
    # instants thousands of years away (an open-ended leave "until 6200-01-01"): more slots than a C int holds.  No value is
    # claimed for the project-level conversion (py = cy only, C13); the slot table clamps to its last / first index when asked to
    for g in (60, 3600):
        start = datetime(2024, 1, 1)
        p = PJ.Project("p", "P", "1")
        p["start"] = start
        p["end"] = start + timedelta(days=7)
        p.attributes["scheduleGranularity"] = g
        sb = SB.Scoreboard(start, start + timedelta(hours=6), g, None)
        for far in (datetime(6200, 1, 1), datetime(9999, 12, 31), datetime(2500, 1, 1)):
            r = both(lambda: p.dateToIdx(far))
            calls.append(dict(op="pd2ix", g=g, span=7 * 86400, x=-2, **wide(r)))
            r = both(lambda: sb.dateToIdx(far, True))
            calls.append(dict(op="d2iclamp", g=g, span=6 * 3600, x=1, **r))
        r = both(lambda: sb.dateToIdx(datetime(1, 1, 2), True))
        calls.append(dict(op="d2iclamp", g=g, span=6 * 3600, x=-1, **r))
    # a table of minutes that begins in year 1: instants whose index is 2^32 + k must not alias slot k, indices beyond 2^31
    # are outside every table (rejected, or clamped when asked to)
    start = datetime(1, 1, 1)
    for span in (86400, 7200):
        sb = SB.Scoreboard(start, start + timedelta(seconds=span), 60, None)
        for k in (0, 5, span // 60, 2 ** 31 + 3 - 2 ** 32):
            far = start + timedelta(minutes=2 ** 32 + k)
            for force in (False, True):
                r = both(lambda: sb.dateToIdx(far, force))
                calls.append(dict(op="d2ifar", g=60, span=span, force=force, **r))
        for x in (2 ** 31, 2 ** 32 + 5, 2 ** 31 - 1):
            for force in (False, True):
                r = both(lambda: secs(start, sb.idxToDate(x, force)))
                calls.append(dict(op="i2dfar", g=60, span=span, force=force, **r))
    # long windows (three years): instants and indices far from the project start -- seconds beyond 2^24 must not lose precision
    for g in (60, 900, 3600) if tier == "quick" else (60, 300, 900, 1800, 3600):
        start = datetime(2024, 1, 1)
        span = 3 * 365 * 86400
        p = PJ.Project("p", "P", "1")
        p["start"] = start
        p["end"] = start + timedelta(seconds=span)
        p.attributes["scheduleGranularity"] = g
        r = both(lambda: p.scoreboardSize())
        calls.append(dict(op="psize", g=g, span=span, **r))
        for day in (150, 194, 195, 400, 777, 778, 1000, 1094):
            k0 = day * 86400 // g
            for k in (k0, k0 + 1, k0 + 7):
                for dlt in (-1, 0, 1, g // 2, g - 1):
                    t = k * g + dlt
                    d = start + timedelta(seconds=t)
                    r = both(lambda: p.dateToIdx(d))
                    calls.append(dict(op="pd2i", g=g, span=span, x=t, **r))
                r = both(lambda: secs(start, p.idxToDate(k)))
                calls.append(dict(op="pi2d", g=g, span=span, x=k, **r))
    return calls


def run_calls(tier, rng):
    g = 3600
    start = datetime(2024, 1, 1)
    maxlen = 7 if tier == "quick" else 9
    calls = []
    for n in range(2, maxlen + 1):
        sb = SB.Scoreboard(start, start + timedelta(seconds=(n - 1) * g), g, None)
        assert sb.size == n
        pats = list(itertools.product([False, True], repeat=n))
        if tier == "quick" and n > 6:
            pats = rng.sample(pats, 60)
        for pat in pats:
            for i, v in enumerate(pat):
                sb[i] = v
            for ws in range(0, n - 1):
                for we in range(ws + 1, n):
                    # the minimum length is a duration in seconds, not necessarily a whole number of slots
                    for msec in (g, 2 * g, 3 * g, g // 2, g + 1, g + g // 2, 2 * g - 1, 2 * g + 60):
                        iv = TimeInterval(start + timedelta(seconds=ws * g), start + timedelta(seconds=we * g))

                        def scan():
                            res = sb.collectIntervals(iv, msec, lambda v: v is True)
                            return [[secs(start, r.start) // g, secs(start, r.end) // g] for r in res]
                        r = both(scan)
                        calls.append(dict(op="runs", pat=list(pat), ws=ws, we=we, minsec=msec, g=g, **r))
    return calls


DAYN = ["mon", "tue", "wed", "thu", "fri", "sat", "sun"]
TABLES = [
    {d: [(540, 1020)] for d in range(5)},
    {d: [(480, 720), (780, 1020)] for d in range(7)},
    {d: [(1320, 360)] for d in range(5)},
    {6: [(1320, 360)], 2: [(0, 1)], 3: [(1439, 1)]},
    {0: [(0, 1440 - 1)], 1: [(1, 2), (2, 3)], 5: [(600, 600)]},
    {d: [(0, 480), (960, 1439)] for d in (1, 3, 5)},
    {},
    {4: [(1320, 120)], 5: [(60, 180)]},
    # intervals of a day in the order they were written / added, not sorted
    {d: [(780, 1020), (480, 720)] for d in range(5)},
    {0: [(1080, 1380), (1410, 300), (360, 600)], 1: [(900, 960), (60, 120), (600, 660)], 6: [(1200, 1260), (0, 30)]},
]


def hours_calls(tier, rng):
    start = datetime(2024, 1, 1)        # Monday 00:00; one-minute slots -> slot index = minute of the week
    p = PJ.Project("p", "P", "1")
    p["start"] = start
    p["end"] = start + timedelta(days=8)
    p.attributes["scheduleGranularity"] = 60
    tables = list(TABLES)
    if tier == "thorough":
        for _ in range(8):
            t = {}
            for d in rng.sample(range(7), rng.randint(1, 5)):
                ivs = []
                for _k in range(rng.randint(1, 3)):
                    a = rng.randrange(0, 1440)
                    b = rng.randrange(0, 1440)
                    ivs.append((a, b))
                t[d] = ivs
            tables.append(t)
    calls = []
    jt = []
    for ti, tab in enumerate(tables):
        wh = WH.WorkingHours(p)
        wh._custom_hours_set = True
        wh._hours = {d: [((a // 60, a % 60), (b // 60, b % 60)) for a, b in ivs] for d, ivs in tab.items()}
        jt.append([[[a, b] for a, b in tab.get(d, [])] for d in range(7)])
        edges = {0, 1439}
        for ivs in tab.values():
            for a, b in ivs:
                edges |= {a, b}
        for d in range(7):
            if tier == "thorough" and ti < 10:
                ys = range(1440)
            else:
                ys = sorted({y for y in range(0, 1440, 15)} | {(e + k) % 1440 for e in edges for k in (-1, 0, 1)})
            for y in ys:
                idx = d * 1440 + y
                r = both(lambda: bool(wh.onShift(idx)))
                calls.append(dict(op="onshift", h=ti, d=d, y=y, **r))
            ivs = tab.get(d, [])
            if ivs and all(b > a for a, b in ivs):
                r = both(lambda: int(round(wh.get_daily_hours(d) * 60 * 1000000)))
                calls.append(dict(op="dailymin", h=ti, d=d, **r))
    # a table that was COPIED from another one (attribute inheritance deep-copies working hours) and then got an interval of
    # its own: both objects are asked about the same minutes, alternately -- neither may answer for the other
    import copy
    for ti, tab in enumerate(TABLES[:4]):
        wh_a = WH.WorkingHours(p)
        for d, ivs in tab.items():
            for a, b in ivs:
                wh_a.set_hours([DAYN[d]], [("%02d:%02d" % (a // 60, a % 60), "%02d:%02d" % (b // 60, b % 60))])
        if not tab:
            continue
        wh_b = copy.deepcopy(wh_a)
        wh_b.set_hours(["fri"], [("05:10", "06:20")])
        tab_b = {d: list(ivs) for d, ivs in tab.items()}
        tab_b.setdefault(4, []).append((310, 380))
        ha, hb = len(jt), len(jt) + 1
        jt.append([[[a, b] for a, b in tab.get(d, [])] for d in range(7)])
        jt.append([[[a, b] for a, b in tab_b.get(d, [])] for d in range(7)])
        for y in list(range(300, 390, 5)) + [309, 310, 311, 379, 380, 381]:
            idx = 4 * 1440 + y
            first, second = ((wh_a, ha), (wh_b, hb)) if (y // 5) % 2 == 0 else ((wh_b, hb), (wh_a, ha))
            for wh_x, hx in (first, second):
                r = both(lambda: bool(wh_x.onShift(idx)))
                calls.append(dict(op="onshift", h=hx, d=4, y=y, **r))
    return calls, jt


def main(out_path, tier, seed):
    rng = random.Random(seed)
    conv = conv_calls(tier, rng)
    runs = run_calls(tier, rng)
    hrs, tables = hours_calls(tier, rng)
    n = 0
    with open(out_path, "w") as f:
        for name, calls in (("conv", conv), ("runs", runs), ("hours", hrs)):
            for i in range(0, len(calls), 2000):
                f.write(json.dumps({"id": "%s-%d" % (name, i // 2000), "tables": tables if name == "hours" else [],
                                    "calls": calls[i:i + 2000]}) + "\n")
                n += 1
    print(json.dumps({"native": NATIVE, "calls": len(conv) + len(runs) + len(hrs), "batches": n,
                      "conv": len(conv), "runs": len(runs), "hours": len(hrs)}))


if __name__ == "__main__":
    main(sys.argv[1], sys.argv[2], int(sys.argv[3]) if len(sys.argv) > 3 else 1)
