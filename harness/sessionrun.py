"""In-scratch runner for C12: replays call histories (enumerated by TLC from spec/Session.tla) in ONE
interpreter and records what every call lets the user observe.

  python -m harness.sessionrun JOB.json OUT.jsonl
JOB = {"texts": {"A": ..., "B": ..., "X": ...}, "histories": [[["parse","A"],["schedule","A"],...], ...], "workdir": path}
Every history starts with fresh per-history objects, but the interpreter (class-level state, singletons,
caches, the parser instance) is shared by all histories of the job -- which is the point.
"""
import contextlib
import hashlib
import io
import json
import os
import shutil
import sys
import tempfile

from harness.build import block_cython_if_requested

block_cython_if_requested()
from scriptplan.parser.tjp_parser import ProjectFileParser  # noqa: E402
from scriptplan.cli.main import run_scriptplan  # noqa: E402


def secs(p, dt):
    return int(round((dt - p["start"]).total_seconds())) if dt else -1


def finals(p):
    out = []
    nsc = len(list(p.scenarios))
    for sc in range(nsc):
        for t in p.tasks:
            out.append({"sched": bool(t.get("scheduled", sc)), "start": secs(p, t.get("start", sc)), "end": secs(p, t.get("end", sc))})
    return out


def digest(b):
    return list(hashlib.sha256(b).digest()[:8])


def report_obs(p):
    rows = []
    for rep in p.reports:
        rep.generate_intermediate_format()
        j = rep.to_json()
        c = rep.to_csv()
        rows.append(digest(json.dumps(j, sort_keys=True, default=str).encode()) + digest(json.dumps(c, default=str).encode()))
    return rows


def cli_obs(text, workdir):
    d = tempfile.mkdtemp(prefix="cli_", dir=workdir)
    try:
        f = os.path.join(d, "in.tjp")
        with open(f, "w") as fh:
            fh.write(text)
        out = os.path.join(d, "out")
        os.mkdir(out)
        ok, err = run_scriptplan(f, out)
        rows = [[1 if ok else 0]]
        for name in sorted(os.listdir(out)):
            rows.append(digest(name.encode()) + digest(open(os.path.join(out, name), "rb").read()))
        return rows
    finally:
        shutil.rmtree(d, ignore_errors=True)


def run_history(parser, texts, hist, workdir):
    objs = {}
    obs = []
    for op, x in hist:
        o = {"op": op, "x": x, "err": False, "final": None, "rows": None}
        try:
            with contextlib.redirect_stderr(io.StringIO()), contextlib.redirect_stdout(io.StringIO()):
                if op == "parse":
                    objs.pop(x, None)
                    objs[x] = parser.parse(texts[x])
                    o["final"] = finals(objs[x])
                elif op == "parse_only":
                    objs.pop(x, None)
                    objs[x] = parser.parse(texts[x], schedule=False)
                    o["final"] = finals(objs[x])
                elif op == "schedule":
                    objs[x].schedule()
                    o["final"] = finals(objs[x])
                elif op == "report":
                    o["rows"] = report_obs(objs[x])
                    o["final"] = finals(objs[x])
                elif op == "cli":
                    o["rows"] = cli_obs(texts[x], workdir)
        except Exception as ex:  # noqa: BLE001
            o["err"] = True
            o["etype"] = type(ex).__name__
            o["etext"] = str(ex)[:4000]          # the diagnostic is output too: the same text gives the same message
        obs.append(o)
    return obs


def main(job_path, out_path):
    job = json.load(open(job_path))
    parser = ProjectFileParser() if job.get("share_parser", True) else None
    with open(out_path, "w") as out:
        for i, hist in enumerate(job["histories"]):
            pr = parser or ProjectFileParser()
            out.write(json.dumps({"h": job.get("offset", 0) + i, "obs": run_history(pr, job["texts"], hist, job["workdir"])}) + "\n")


if __name__ == "__main__":
    main(sys.argv[1], sys.argv[2])
