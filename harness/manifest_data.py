"""Data behind MANIFEST.json (python -m harness.mkmanifest regenerates the file)."""
HOOK_COMMITS = ["ff69824", "ddbcc8f", "c479263", "9cee36a", "95e5268"]

ENGINES = [
    {"name": "E1 sched-trace", "path": "spec/TraceSched.tla + spec/SchedCore.tla + harness/e1.py",
     "serves_properties": ["C01", "C02", "C03", "C04", "C05", "C06", "C07", "C08", "C10"],
     "kind_free_text": "code -> spec: hook events of real runs are replayed by TLC, every property predicate evaluated on every observed state, every step compared with the step the spec computes"},
    {"name": "E3 slot-ledger", "path": "spec/SlotLedger.tla + spec/MC_SlotLedgerU.tla (Apalache) + spec/MC_SlotLedgerR.tla (TLC) + harness/ledgerrun.py",
     "serves_properties": ["C01", "C06"],
     "kind_free_text": "one slot of one resource: inductive invariant for every capacity by Apalache; every operation sequence of a small instance enumerated by TLC and replayed into the real ResourceScenario / TaskScenario"},
    {"name": "E2 sched-universe", "path": "spec/Sched.tla + spec/MC_*.tla + harness/e2.py",
     "serves_properties": ["C07", "C01", "C02", "C03", "C04", "C05", "C06", "C08", "C10", "C11"],
     "kind_free_text": "spec -> code: TLC runs the scheduler state machine (Sched.tla) over ten bounded universes (MC_Core, MC_Tree, MC_SubSlot, MC_Alap, MC_Limits, MC_Alt, MC_Team, MC_Cal, MC_Total) with all properties as invariants; every terminal state is replayed through rendered text into the real code (final dates) or every project of the universe is traced and judged by TraceSched"},
    {"name": "E4 algebra", "path": "spec/Algebra.tla + harness/algrun.py + harness/props_alg.py",
     "serves_properties": ["C13", "C17"],
     "kind_free_text": "laws ASSUMEd and checked by TLC; recorded calls of compiled and pure implementations validated against the operators"},
    {"name": "E6 outcome", "path": "spec/Outcome.tla + spec/MC_Total.tla + harness/props_c11.py", "serves_properties": ["C11"],
     "kind_free_text": "liveness / step bound of Sched.tla by TLC; observed pipeline outcomes classified by TLC; relative cost bound: one statement kind written k and 2k times"},
    {"name": "E7 session", "path": "spec/Session.tla + harness/sessionrun.py + harness/props_c12.py", "serves_properties": ["C12"],
     "kind_free_text": "spec -> code: TLC-enumerated call histories replayed in one interpreter"},
    {"name": "E8 report", "path": "spec/Report.tla + harness/reportrun.py + harness/props_c18.py", "serves_properties": ["C18"],
     "kind_free_text": "observations of report generation validated by TLC against the report function"},
    {"name": "E9 cli", "path": "spec/Cli.tla + spec/MC_Cli.tla + spec/FsTrace.tla + harness/props_cli.py", "serves_properties": ["C19", "C20"],
     "kind_free_text": "spec -> code replay of every CLI situation; interleavings model-checked; strace logs validated"},
    {"name": "E5 relate", "path": "spec/Relate.tla + spec/Attr.tla + harness/props_rel.py + harness/attrrun.py",
     "serves_properties": ["C09", "C14", "C15", "C16"],
     "kind_free_text": "relational obligations between traced runs decided by TLC"},
]

TRACE_NOTE = ("trusted: TLC, CPython datetime/zoneinfo, the harness renderer (abstract project -> .tjp) and runner; "
              "for repository fixtures also the parser. Bounded: generated projects of the listed profiles, not all projects.")

CLAIMS = {
    "C01": {"engine": "E1 sched-trace", "design_ref": "DESIGN.md 5/C01",
            "technique": "TLA+ trace validation (TLC) of hook-recorded ledger operations against SchedCore invariant P01; SlotLedger.tla: Apalache inductive invariant for any capacity + TLC-enumerated operation sequences replayed into the real ledger; MC_SubSlot universe traced (thorough)",
            "text": "TLC evaluates the no-double-booking invariant (portions per slot fit, used <= capacity; on the final ledger the portions of a shared slot fit side by side inside the reported intervals of their tasks) on every observed Book / OffsetMark / Finish state of hundreds (quick) to thousands (thorough) of generated sub-slot / team / ALAP projects and of the repository fixtures; slots shared by a forward and a backward task are explored (mixed_subslot) and belong to the class of the open finding KF-C01-mixed-direction, decided by TraceSched.MixedDir",
            "note": TRACE_NOTE},
    "C02": {"engine": "E1 sched-trace", "design_ref": "DESIGN.md 5/C02",
            "technique": "TLA+ trace validation: every booked portion checked against the Calendar operators of SchedCore (zone step functions from zoneinfo); MC_Cal universe (calendars x zones incl. a DST week x leave x vacation, forward and backward) model-checked and every project traced",
            "text": "every portion a task finally keeps is checked instant by instant (at the calendar step of the project) against OnShiftSec of the spec, for generated calendars with zones, DST, night shifts, leaves, vacations, bookings, ASAP and ALAP; leaves inherited from resource groups and from shifts, working hours declared in the project header (also on the slot grid but off the full hour), projects running over New Year (year_end), project headers that name a zone other than UTC (D43), sites (zone-only resource groups)",
            "note": TRACE_NOTE + " Projects with calendar edges off the slot grid are the class of the recorded finding KF-C02-misaligned and are skipped by the main exploration."},
    "C03": {"engine": "E1 sched-trace", "design_ref": "DESIGN.md 5/C03",
            "technique": "TLA+ trace validation: exact integer tick accounting of the spec vs the implementation's float accumulation; MC_Alt universe (choice among primaries / alternatives / groups) model-checked and every project traced; MC_SubSlot / MC_Team traced (thorough)",
            "text": "at every Finish/Done TLC checks ticks booked per member = effort exactly, last booking needed and non-empty, team members same instants, one candidate set; a task with alternatives never changes its candidate after work was booked (forward and backward)",
            "note": TRACE_NOTE},
    "C04": {"engine": "E1 sched-trace", "design_ref": "DESIGN.md 5/C04",
            "technique": "TLA+ trace validation: precedence predicate P04 over own + inherited + precedes edges taken from the generator, both directions",
            "text": "P04 evaluated by TLC when each task's dates are reported, edges from the abstract project (not the parsed model), nested DAGs, gaps, on-start, dated containers, ASAP and ALAP; edges that name a container are edges to every leaf inside it, in both directions (Succs / FSuccs / GapTo), with the direction of the leaves inside (SameDir); `scheduling` inherited from containers (ModeFrom); gap durations in days / weeks are calendar time; MC_Jit (thorough)",
            "note": TRACE_NOTE},
    "C05": {"engine": "E1 sched-trace", "design_ref": "DESIGN.md 5/C05",
            "technique": "TLA+ trace validation: booked seconds per calendar day / week from the observed ledger vs declared limits, DayOf/WeekOf integer arithmetic",
            "text": "booked time per limit owner and period recomputed by the spec from the logged bookings over the whole (extended) horizon and compared with the declared limit; year_end profile: weekly counters in the ISO week that straddles New Year; limits of less than one slot (nothing bookable, also beyond the declared end)",
            "note": TRACE_NOTE},
    "C06": {"engine": "E1 sched-trace", "design_ref": "DESIGN.md 5/C06",
            "technique": "TLA+ trace validation: frame predicate P06 (order, tightness, milestone at bound) at every Done; SlotLedger operation sequences replayed (precise end = slot start + base + kept); MC_SubSlot universe traced (thorough)",
            "text": "start <= end (< with work), start in earliest booked slot, end in closure of latest, milestones at their bound (a dated event inside a backward package keeps start = end; a period the user dated at both ends is reported as written); ASAP and ALAP; the last backward task landing in slot 0",
            "note": TRACE_NOTE},
    "C07": {"engine": "E1 sched-trace", "design_ref": "DESIGN.md 5/C07",
            "technique": "TLA+ reference semantics (SchedCore) executed by TLC step by step against recorded runs; equality of every step and of final dates; MC_Core and MC_Tree universes: every terminal state of Sched.tla replayed into the code",
            "text": "for core-dialect projects every implementation step (pick order, cursor, offset, booking, release, dates) must equal the step the spec computes and the final dates must agree; no complete container may be left unrolled when the next task is picked (PendingC = {})",
            "note": TRACE_NOTE},
    "C08": {"engine": "E1 sched-trace", "design_ref": "DESIGN.md 5/C08",
            "technique": "TLA+ trace validation: no-idle predicates P08F/P08B at Finish, lead-in rule at Book, backward tasks end by the deadline the spec computes; a forward task with a start of its own must not be run backward (Modes)",
            "text": "at Finish every on-shift slot between bound and end (deadline and end for ALAP) has no free tick; idle lead-in only in the bound's slot; MC_Jit universe (3 072 forward projects with one backward anchor: which predecessors are pulled back, SchedCore.ExpFwd) traced and judged; jit profile; gates that wait for whole containers; deadlines on nested containers",
            "note": TRACE_NOTE},
    "C10": {"engine": "E1 sched-trace", "design_ref": "DESIGN.md 5/C10",
            "technique": "TLA+ trace validation: container predicate P10 at every RollUp and on the final state; MC_Tree universe (nested containers, inherited edges, edges on containers) model-checked and every project traced",
            "text": "container scheduled iff all children, start=min, end=max at every level; ledger keys are leaf resources and leaf tasks",
            "note": TRACE_NOTE},
}

REL_NOTE = ("every run is traced and validated by TLC against TraceSched; the relation between two runs (equal dates and event digests "
            "after alignment) is decided by spec/Relate.tla. Bounded: generated base projects x listed variants.")
CLAIMS.update({
    "C09": {"engine": "E5 relate", "design_ref": "DESIGN.md 5/C09",
            "technique": "TLA+ trace validation of both runs + relational obligation (Relate.tla) on the common tasks; pick-order check on the trace",
            "text": "base project x added strictly-lowest-priority task: dates of all other tasks identical (pairs with different horizons excluded, counted), intruder picked last",
            "note": REL_NOTE},
    "C13": {"engine": "E4 algebra", "design_ref": "DESIGN.md 5/C13",
            "technique": "recorded calls of both implementations validated by TLC against the operators of Algebra.tla and against each other; whole-project traces native vs pure compared event by event",
            "text": "bounded grid of the property (conversion, run scanning, every sampled minute of the week x interval tables) exhaustively, plus generated projects and fixtures end to end with extensions rebuilt from source and with imports blocked",
            "note": "trusted: TLC, CPython datetime; the grid is bounded (resolutions 1..60 min, windows <= 3 days, patterns <= 9 slots)"},
    "C14": {"engine": "E5 relate", "design_ref": "DESIGN.md 5/C14",
            "technique": "one abstract project, many week-shifted renderings; every rendering trace-validated by TLC; Relate.tla obligation: identical events and dates relative to the project start",
            "text": "offsets 1 week .. 5 years incl. those landing on 2020/21, 2026/27, 2032/33 (53-week years) and 29 Feb; limits, ALAP, calendars, leaves",
            "note": REL_NOTE},
    "C15": {"engine": "E5 relate", "design_ref": "DESIGN.md 5/C15",
            "technique": "one abstract project, nine spellings; every spelling trace-validated by TLC; Relate.tla obligation: identical events and dates",
            "text": "renaming (awkward identifiers), relative/absolute paths, precedes, shift reference vs inline hours, three comment styles, macros with/without argument (also a comma list passed as ONE argument), the grammar's other quoting style ('text'), all combined; comments that quote macro definitions / calls / an old project header; identifiers that begin with day names",
            "note": REL_NOTE},
    "C16": {"engine": "E5 relate", "design_ref": "DESIGN.md 5/C16",
            "technique": "per-scenario sub-traces validated by TLC against the spec instance of the effective project; Relate.tla obligation scenario i == single-scenario rendering of its effective attributes; Attr.tla: TLC enumerates every set of <= 2 (thorough 3) effort / start lines over a task tree x scenario tree, the resolution of the spec is compared with the real model builder for each (spec -> code), invariant OnlyThatScenario",
            "text": "1-4 scenarios, nesting, siblings, effort/start/end overrides, limits (counters must not carry over), overrides needing a longer horizon, forward and backward projects (jit anchors, scenario-specific deadlines); 3 409 (thorough 61 081) projects of the Attr universe in two line orders",
            "note": REL_NOTE + " Pairs whose horizons differ while some task does not fit are excluded (all scenarios share one horizon)."},
    "C17": {"engine": "E4 algebra", "design_ref": "DESIGN.md 5/C17",
            "technique": "laws ASSUMEd in Algebra.tla (checked by TLC on the bounded grid) + every recorded call of both implementations validated against the operators",
            "text": "IndexOf/TimeOf/Size/Clamp/Runs are TLA+ operators with their laws; all indices of bounded windows x 5 resolutions x start offsets and all predicate patterns <= 7/9 slots x windows x min lengths executed on the real functions and compared by TLC",
            "note": "trusted: TLC, CPython datetime; exhaustive within the stated bounds"},
})

CLAIMS.update({
    "C11": {"engine": "E6 outcome", "design_ref": "DESIGN.md 5/C11", "category": "model_checking",
            "technique": "TLC: Sched.tla over a universe with cycles / unreachable bounds / dead resources (Inv11, <>Terminated under WF, step bound); code side: model-driven fault enumeration classified by Outcome.tla + TraceSched C11 flags",
            "text": "spec: every behaviour of Sched terminates within |tasks|*(N+3)+c steps leaving every leaf scheduled in the horizon or unscheduled; code: infeasible grammatical projects and corrupted texts must end as Reject (no schedule event) or Schedule (within a bound proportional to tasks x horizon slots, every leaf scheduled in horizon or warned), never crash / hang; odd_inputs: about 45 texts that combine statements as no fixture does (several allocate lines, scenario-specific duration, undefined macros, header units, astronomic values, ids defined twice -> must be rejected); chains of 120 / 240 tasks in both directions; huge gaps in backward mode, 400-digit numbers; feasible projects that mix the two directions (jit profile): the loop may give up only when no task is ready (false deadlock, F95)",
            "note": "trusted: TLC, runner alarm (SIGALRM) for hangs; bound is a wall-clock budget 20 s + 50 us x tasks x slots, capped by the tooling at 90 s / 400 s; declared horizons over 10 years are not generated; relative bound: 24 statement kinds written k and 2k times, the larger may cost 8 x the smaller"},
    "C12": {"engine": "E7 session", "design_ref": "DESIGN.md 5/C12",
            "technique": "TLC enumerates every API call history of Session.tla; each is replayed in one shared interpreter; observations compared with fresh-process observations by Relate.tla",
            "text": "TLC enumerates all 28 701 histories of length 4 (and those of length 5); a seeded sample of them (480 quick; 6 000 + 1 500 of length 5 thorough) plus fifteen fixed ones over parse / parse-only / repeated schedule / report / CLI path and a rejected text, under 3 hash seeds, with and without extensions, shared and fresh parser objects; SessionMut.cfg shows the model is not vacuous",
            "note": "trusted: TLC, subprocess isolation for the fresh-process reference; the texts are three fixed shapes (inheritance-heavy DAG with tied and staggered alternatives and rates; limits + scenarios; the same tasks with the scenario value on the parent scenario) per seed"},
})

CLAIMS.update({
    "C18": {"engine": "E8 report", "design_ref": "DESIGN.md 5/C18",
            "technique": "Report.tla: rows as a function of (schedule, definition), generation with UNCHANGED schedule; observations of the real report code (in-memory JSON/CSV, generated files, schedule after 1..3 generations) decoded into the abstract domain and checked by TLC",
            "text": "row set and order (leaf filter, hidetask @none / @all / flag / ~flag / ~isleaf()), Null for unscheduled, JSON = CSV = files, cost = rate x booked time within a cent (rates by the generator's reference semantics: own, else the group's, else the global one), schedule unchanged by generation; 6 time formats, random column selections",
            "note": "trusted: TLC, CPython strftime/strptime (string rendering is compared by the harness: rendered_ok), csv/json modules"},
    "C19": {"engine": "E9 cli", "design_ref": "DESIGN.md 5/C19",
            "technique": "Cli.tla state machine model-checked (ExitContract, NoTrace, <>AllDone); every terminal state replayed against the real plan entry point as a subprocess",
            "text": "all 488 situations input class (missing, directory, empty, blank, syntax, model, not UTF-8, CRLF, partially schedulable, unreadable, file name with a line break / undecodable bytes, ok) and diagnostics channel (stderr writable / on a full device) x channel x format x own reports (incl. names that escape the output directory, refused names, sub-directories, ids that are part of every auto-report id or missing) x output target (stdout, new file, existing file, --force, missing directory, reader gone); exit status, what stdout is (auto report with SHA-256 report_id / nothing), stderr, leftovers; same rows across channels and own-report variants, same bytes across channels; encoding environments (PYTHONIOENCODING=latin-1, LC_ALL=C), an input with 1 200 tasks, blank files, reports with refused names",
            "note": "trusted: TLC, subprocess / OS; entry point invoked as python -m scriptplan.cli.plan from the scratch copy"},
    "C20": {"engine": "E9 cli", "design_ref": "DESIGN.md 5/C20",
            "technique": "Cli.tla with 3 processes: all interleavings at file-operation granularity (NoTrace, Isolation; shared-name variant must fail); real concurrent rounds compared with solitary runs; strace file-operation logs checked by FsTrace.tla",
            "text": "N = 8..128 real processes in one cwd and TMPDIR on same / different / failing inputs: byte-identical stdout, equal exit, nothing left; path ownership and creation order from strace logs; outside faults as actions of the model (Interrupt: Ctrl-C once the run is under way; WriteFail: a temp copy that cannot be written) replayed alone and among other processes; SIGTERM / SIGHUP, a report that cannot be written into the output directory, a failing final --output write (no truncated file); every --output situation alone: nothing but the target itself may appear where the target lies",
            "note": "trusted: TLC, strace, the OS scheduler for interleavings of real processes (not controlled); the exhaustive interleaving argument is on the model"},
})

_PENDING = "check under construction in this build round (see DESIGN.md 9.1); not claimed until it runs clean"
NOT_APPLICABLE = []

NOTES = ("Single entry point ./check <id> --tier quick|thorough [--replay path]. exit 0 held / 1 VIOLATION line / 2 machinery failure. "
         "Known findings: known_findings.json (open entries print KNOWN-FINDING and are excluded from the main exploration by class).")
