"""Data behind MANIFEST.json (python -m harness.mkmanifest regenerates the file)."""
HOOK_COMMITS = ["ff69824", "ddbcc8f", "c479263", "9cee36a"]

ENGINES = [
    {"name": "E1 sched-trace", "path": "spec/TraceSched.tla + spec/SchedCore.tla + harness/e1.py",
     "serves_properties": ["C01", "C02", "C03", "C04", "C05", "C06", "C07", "C08", "C10"],
     "kind_free_text": "code -> spec: hook events of real runs are replayed by TLC, every property predicate evaluated on every observed state, every step compared with the step the spec computes"},
]

TRACE_NOTE = ("trusted: TLC, CPython datetime/zoneinfo, the harness renderer (abstract project -> .tjp) and runner; "
              "for repository fixtures also the parser. Bounded: generated projects of the listed profiles, not all projects.")

CLAIMS = {
    "C01": {"engine": "E1 sched-trace", "design_ref": "DESIGN.md 5/C01",
            "technique": "TLA+ trace validation (TLC) of hook-recorded ledger operations against SchedCore invariant P01",
            "text": "TLC evaluates the no-double-booking invariant (portions per slot fit, used <= capacity) on every observed Book / OffsetMark / Finish state of hundreds (quick) to thousands (thorough) of generated sub-slot / team / ALAP projects and of the repository fixtures",
            "note": TRACE_NOTE},
    "C02": {"engine": "E1 sched-trace", "design_ref": "DESIGN.md 5/C02",
            "technique": "TLA+ trace validation: every booked portion checked against the Calendar operators of SchedCore (zone step functions from zoneinfo)",
            "text": "every portion a task finally keeps is checked instant by instant (at the calendar step of the project) against OnShiftSec of the spec, for generated calendars with zones, DST, night shifts, leaves, vacations, bookings, ASAP and ALAP",
            "note": TRACE_NOTE + " Projects with calendar edges off the slot grid are the class of the recorded finding KF-C02-misaligned and are skipped by the main exploration."},
    "C03": {"engine": "E1 sched-trace", "design_ref": "DESIGN.md 5/C03",
            "technique": "TLA+ trace validation: exact integer tick accounting of the spec vs the implementation's float accumulation",
            "text": "at every Finish/Done TLC checks ticks booked per member = effort exactly, last booking needed and non-empty, team members same instants, one candidate set",
            "note": TRACE_NOTE},
    "C04": {"engine": "E1 sched-trace", "design_ref": "DESIGN.md 5/C04",
            "technique": "TLA+ trace validation: precedence predicate P04 over own + inherited + precedes edges taken from the generator, both directions",
            "text": "P04 evaluated by TLC when each task's dates are reported, edges from the abstract project (not the parsed model), nested DAGs, gaps, on-start, dated containers, ASAP and ALAP",
            "note": TRACE_NOTE},
    "C05": {"engine": "E1 sched-trace", "design_ref": "DESIGN.md 5/C05",
            "technique": "TLA+ trace validation: booked seconds per calendar day / week from the observed ledger vs declared limits, DayOf/WeekOf integer arithmetic",
            "text": "booked time per limit owner and period recomputed by the spec from the logged bookings over the whole (extended) horizon and compared with the declared limit",
            "note": TRACE_NOTE},
    "C06": {"engine": "E1 sched-trace", "design_ref": "DESIGN.md 5/C06",
            "technique": "TLA+ trace validation: frame predicate P06 (order, tightness, milestone at bound) at every Done",
            "text": "start <= end (< with work), start in earliest booked slot, end in closure of latest, milestones at their bound; ASAP and ALAP",
            "note": TRACE_NOTE},
    "C07": {"engine": "E1 sched-trace", "design_ref": "DESIGN.md 5/C07",
            "technique": "TLA+ reference semantics (SchedCore) executed by TLC step by step against recorded runs; equality of every step and of final dates",
            "text": "for core-dialect projects every implementation step (pick order, cursor, offset, booking, release, dates) must equal the step the spec computes and the final dates must agree",
            "note": TRACE_NOTE},
    "C08": {"engine": "E1 sched-trace", "design_ref": "DESIGN.md 5/C08",
            "technique": "TLA+ trace validation: no-idle predicates P08F/P08B at Finish and lead-in rule at Book",
            "text": "at Finish every on-shift slot between bound and end (deadline and end for ALAP) has no free tick; idle lead-in only in the bound's slot",
            "note": TRACE_NOTE},
    "C10": {"engine": "E1 sched-trace", "design_ref": "DESIGN.md 5/C10",
            "technique": "TLA+ trace validation: container predicate P10 at every RollUp and on the final state",
            "text": "container scheduled iff all children, start=min, end=max at every level; ledger keys are leaf resources and leaf tasks",
            "note": TRACE_NOTE},
}

_PENDING = "check under construction in this build round (see DESIGN.md 9.1); not claimed until it runs clean"
NOT_APPLICABLE = [{"property_id": p, "reason": _PENDING} for p in
                  ("C09", "C11", "C12", "C13", "C14", "C15", "C16", "C17", "C18", "C19", "C20")]

NOTES = ("Single entry point ./check <id> --tier quick|thorough [--replay path]. exit 0 held / 1 VIOLATION line / 2 machinery failure. "
         "Known findings: known_findings.json (open entries print KNOWN-FINDING and are excluded from the main exploration by class).")
