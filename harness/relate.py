"""Relational obligations decided by spec/Relate.tla."""
import json
import os
import tempfile

from harness import tlaval
from harness.build import MachineryError
from harness.tlc import run_tlc


FAR = 2 ** 30


def _i32(v):
    """TLC's integers (and its JSON reader) are 32 bit.  The only numbers beyond that in a trace are instants "never" (a bound
    that cannot be served is logged as the last representable date, thousands of years away): one value for all of them."""
    return FAR if v >= FAR else (-FAR if v <= -FAR else v)


def digest_events(rec):
    """Event digest of a trace record as lists of ints (task/resource indices, slots, ticks, dates)."""
    codes = {"Prepare": 1, "Modes": 2, "PreMilestone": 3, "Pick": 4, "Begin": 5, "Select": 6, "Book": 7, "OffsetMark": 8,
             "Credit": 9, "Finish": 10, "Done": 11, "RollUp": 12, "LoopEnd": 13, "Warn": 14}
    out = []
    for e in rec.get("events", []):
        row = [codes.get(e["ev"], 0)]
        for k in ("task", "res", "slot", "secsT", "usedT", "keptT", "cursor", "offset", "start", "end", "date"):
            v = e.get(k)
            row.append(_i32(v) if isinstance(v, int) and not isinstance(v, bool) else -7)
        row.append(1 if e.get("ok") else 0)
        out.append(row)
    return out


def finals_of(rec_final):
    return [{"sched": bool(f["sched"]), "start": _i32(int(f["start"])), "end": _i32(int(f["end"]))} for f in rec_final]


RELATE_BYTES = 12 * 2 ** 20      # ... and JSON bytes per TLC run
RELATE_CHUNK = 4000       # obligations per TLC run (a quarter of a million in one run neither fit the heap nor the time limit)


def decide(obligations, timeout=1800):
    """obligations: list of dict(id, left, right, shift=0, levs=None, revs=None).
    Returns dict id -> (differing task positions, first differing event index), TlcResult."""
    if not obligations:
        return {}, None
    sizes = [len(json.dumps(o.get("levs") or [])) + len(json.dumps(o.get("revs") or [])) + 200 * (len(o["left"]) + 1) for o in obligations]
    if len(obligations) > RELATE_CHUNK or (sum(sizes) > RELATE_BYTES and len(obligations) > 1):
        # chunks bounded by number AND by size: every TLC worker builds the whole input as TLA+ values (16 copies of a
        # 100 MB input do not fit the heap, and the JSON reader then fails at a random place)
        chunks, cur, cur_b = [], [], 0
        for o, b_ in zip(obligations, sizes):
            if cur and (len(cur) >= RELATE_CHUNK or cur_b + b_ > RELATE_BYTES):
                chunks.append(cur)
                cur, cur_b = [], 0
            cur.append(o)
            cur_b += b_
        chunks.append(cur)
        out, last = {}, None
        gen = dis = 0
        for ch in chunks:
            part, res = _decide_one(ch, timeout)
            out.update(part)
            gen, dis, last = gen + res.generated, dis + res.distinct, res
        last.generated, last.distinct = gen, dis
        if len(out) != len(obligations):
            raise MachineryError("Relate: %d verdicts for %d obligations (ids not unique?)" % (len(out), len(obligations)))
        return out, last
    return _decide_one(obligations, timeout)


def _decide_one(obligations, timeout):
    fd, path = tempfile.mkstemp(prefix="sprel_", suffix=".ndjson")
    try:
        with os.fdopen(fd, "w") as f:
            for o in obligations:
                cmp_ev = o.get("levs") is not None
                f.write(json.dumps({"id": o["id"], "shift": int(o.get("shift", 0)), "left": o["left"], "right": o["right"],
                                    "cmpEvents": cmp_ev, "levs": o.get("levs") or [], "revs": o.get("revs") or []}) + "\n")
        res = run_tlc("Relate", "Relate.cfg", env_extra={"REL_FILE": path}, timeout=timeout)
        if res.error and os.environ.get("VERIF_KEEP_FAILED"):
            import shutil
            shutil.copy(path, os.environ["VERIF_KEEP_FAILED"])
    finally:
        os.unlink(path)
    if res.error:
        raise MachineryError("TLC failed on Relate:\n" + res.out[-2000:])
    out = {}
    for raw in res.tuples("RELATE"):
        _, oid, diff, fe = tlaval.parse(raw)
        out[oid] = (sorted(diff), fe)
    if len(out) != len(obligations):
        raise MachineryError("Relate: %d verdicts for %d obligations" % (len(out), len(obligations)))
    return out, res
