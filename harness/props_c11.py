"""C11: scheduling is total.  Spec side: Sched.tla over a universe with cycles, self-dependencies, unreachable
bounds, resources that never work, zero effort -- step bound, Inv11 and <>Terminated under weak fairness.
Code side: model-driven fault enumeration: infeasible but grammatical projects and corrupted texts run in
runner processes with a time bound proportional to project size; outcomes are classified by spec/Outcome.tla
and the traces of accepted runs are validated by TraceSched (C11 flags)."""
import glob
import json
import os
import random
import tempfile

from harness import e1, gen, tlaval
from harness.build import scratch_build, MachineryError
from harness.common import Run, phash
from harness.tlc import run_tlc


ALARM = {"quick": 90.0, "thorough": 400.0}      # hard cap per run (a run still going then is a hang)


def size_bound_ms(rec):
    """Bound proportional to project size: 20 s + 50 us x tasks x slots of the (extended) horizon."""
    P = rec.get("project")
    if not P:
        return 20000
    return int(20000 + 0.05 * len(P["tasks"]) * P["N"])


def scaled_bound_ms(rec, job, wall_of):
    """A project with a statement written 2k times may cost 8 x what the one with k costs (cubic growth would still pass;
    0.5 s floor for noise) -- and never more than the size bound."""
    b = size_bound_ms(rec)
    if job.get("pair") and job["pair"] in wall_of:
        b = min(b, int(8000 * max(wall_of[job["pair"]], 0.5)))
    return b


def _effort_days(text):
    """Largest effort written in the text, in working days (the scheduler extends the horizon to make it fit)."""
    import re
    unit = {"min": 1 / 480.0, "h": 1 / 8.0, "d": 1.0, "w": 5.0, "m": 22.0, "y": 260.0}
    worst = 0.0
    for m in re.finditer(r"effort\s+([0-9]+(?:\.[0-9]+)?)\s*(min|h|d|w|m|y)\b", text):
        try:
            worst = max(worst, float(m.group(1)) * unit[m.group(2)])
        except (ValueError, OverflowError):
            worst = float("inf")
    return worst


def decide_outcomes(rows):
    fd, path = tempfile.mkstemp(prefix="spout_", suffix=".ndjson")
    try:
        with os.fdopen(fd, "w") as f:
            for r in rows:
                f.write(json.dumps(r) + "\n")
        res = run_tlc("Outcome", "Outcome.cfg", env_extra={"OUT_FILE": path})
    finally:
        os.unlink(path)
    if res.error:
        raise MachineryError("TLC failed on Outcome:\n" + res.out[-2000:])
    out = {}
    for raw in res.tuples("OUTCOME"):
        _, oid, ok, why = tlaval.parse(raw)
        out[oid] = (ok, why)
    if len(out) != len(rows):
        raise MachineryError("Outcome: %d verdicts for %d runs" % (len(out), len(rows)))
    return out, res


def check(prop, tier, replay=None):
    run = Run("C11", tier)
    run.cov["rule"] = ("(a) generated infeasible projects and small projects with 4-5 scenarios over inherited limits: dependency cycles, self-dependencies, container depending on its child, pinned starts far "
                       "beyond the end, deadlines before the start, resources on leave for the whole horizon, zero / huge efforts, no allocation, "
                       "group allocations, ALAP; (b) corrupted variants of generated texts and of the repository fixtures: token deletion / duplication / "
                       "swap, truncation, brace damage, absurd numbers and dates, keyword substitution, undefined and recursive macros; "
                       "(c) one statement kind (vacation, leaves, booking, hours, limits, flags, dependencies, allocations, nesting, scenarios, reports, macros) written k and 2k times: the larger costs at most 8 x the smaller; each run must return within 20 s + 50 us x tasks x horizon slots (hard cap 90 s quick / 400 s thorough); non-trivial = distinct text whose outcome is not plain success")
    run.assumptions = ["a text is 'accepted' iff ProjectFileParser.parse(text, schedule=False) returns", "bound proportional to size is a wall-clock budget, not a complexity proof"]
    rng = random.Random(run.seed * 7 + 11)
    n_inf = 60 if tier == "quick" else 1500
    n_cor = 6 if tier == "quick" else 40
    jobs = []
    for pid, p in gen.infeasible(rng, n_inf):
        jobs.append({"id": "C11-" + pid, "text": p.render(), "scenarios": [0]})
    # cost must stay proportional to the size of the project: many scenarios over inherited limits
    for pid, p in gen.many_scenarios(rng, 6 if tier == "quick" else 60):
        jobs.append({"id": "C11-" + pid, "text": p.render(), "scenarios": [0]})
    # feasible projects that mix the two directions (a forward project with deliveries anchored at their deadlines; some
    # predecessors of an anchor also feed forward work): giving up is for loops, not for these
    for pid, p in gen.jit(rng, 15 if tier == "quick" else 300):
        jobs.append({"id": "C11-" + pid, "text": p.render(), "scenarios": [0]})
    for pid, p in gen.wide_groups(rng, 4 if tier == "quick" else 40):
        jobs.append({"id": "C11-" + pid, "text": p.render(), "scenarios": [0]})
    # one statement kind written k and 2k times in one property: the cost of the larger project is bounded by the smaller one's
    for k in ((12,) if tier == "quick" else (11, 12, 13)):
        for kk in (k, 2 * k):
            for kind, text in gen.repeated_statements(kk):
                jobs.append({"id": "C11-rep-%s-k%d" % (kind, kk), "text": text, "scenarios": [0], "pair": "C11-rep-%s-k%d" % (kind, k) if kk != k else None})
    # statements combined in ways no fixture does (several allocate lines, scenario-specific duration, an undefined macro where
    # a date belongs, header units, astronomic values, ...)
    for kind, text in gen.odd_inputs():
        jobs.append({"id": "C11-odd-%s" % kind, "text": text, "scenarios": [0], "must_reject": kind in gen.ODD_MUST_REJECT})
    seeds = []
    for name in ("dags", "limits_profile", "calendars", "teams_alts"):
        seeds += [("gen-" + pid, p.render()) for pid, p in getattr(gen, name)(rng, 3 if tier == "quick" else 25)]
    fx = sorted(glob.glob(os.path.join((os.environ.get("VERIF_REPO") or "/repo"), "tests/data/*.tjp")))
    if tier == "quick":
        fx = [f for f in fx if os.path.basename(f) in ("simple.tjp", "quota.tjp", "jit_supply.tjp", "failover.tjp", "thermal.tjp")]
    else:
        fx = [f for f in fx if "math_torture" not in f]
    seeds += [("fix-" + os.path.basename(f), open(f).read()) for f in fx]
    import re
    skipped = 0
    skipped_eff = 0
    for sid, text in seeds:
        for j, (kind, bad) in enumerate(gen.corruptions(text, rng, n_cor)):
            m = re.search(r'project\s+(?:[A-Za-z_]\S*\s+)?"[^"]*"\s+(?:"[^"]*"\s+)?\S+\s+\+(\d+)\s*([dwmy])', bad)
            if m and int(m.group(1)) * {"d": 1, "w": 7, "m": 31, "y": 366}[m.group(2)] > 3660:
                skipped += 1        # declared horizon beyond 10 years: cost is proportional to it and exceeds the tooling cap
                continue
            if _effort_days(bad) > 4000:
                skipped_eff += 1    # the horizon is extended in proportion to the effort: same cost, same tooling cap (8 000 d: 4 s, 99 999 d: > 90 s, measured linear)
                continue
            jobs.append({"id": "C11-%s~%s%d" % (sid, kind, j), "text": bad, "scenarios": [0]})
    run.notes["skipped_declared_horizon_over_10_years"] = skipped
    run.notes["skipped_total_effort_over_4000_working_days"] = skipped_eff
    if replay:
        jobs = [json.load(open(replay))]
    for j in jobs:
        j["limit"] = ALARM[tier]
    with scratch_build() as scr:
        recs = e1.run_impl(scr, jobs, nproc=14, timeout=3000)
        by_id = {j["id"]: j for j in jobs}
        rows = []
        wall_of = {r["id"].split("#sc")[0]: r.get("wall", 0) for r in recs}
        for r in recs:
            jid = r["id"].split("#sc")[0]
            job = by_id[jid]
            if r.get("status") == "lost":
                raise MachineryError("runner lost job %s: %s" % (r["id"], r.get("error", "")[-300:]))
            if r.get("status") == "crash" and r.get("phase") in ("extract", "runner"):
                # the harness's own model extraction failed on an accepted text: not an observation of the pipeline
                run.notes.setdefault("harness_extract_failures", []).append({"id": r["id"], "error": r.get("error", "")[-200:]})
                continue
            P = r.get("project")
            fin = r.get("final") or []
            leafs = [i for i, t in enumerate(P["tasks"]) if t["leaf"]] if P else []
            in_h = True
            sched = 0
            if P and fin:
                hor = P["N"] * P["G"]
                for i in leafs:
                    f = fin[i]
                    if f["sched"]:
                        sched += 1
                        t = P["tasks"][i]
                        user_ms = t["effort"] == 0 and (t["pin"] != -1 or t["pinEnd"] != -1)      # -1 = no pin; a pin before the project start is negative
                        if not (f["start"] <= f["end"] and (user_ms or 0 <= f["start"] <= f["end"] <= hor)):
                            in_h = False
            rows.append({"id": r["id"], "status": r["status"], "accepted": r["status"] != "rejected",
                         "nevents": len(r.get("events", [])) if r["status"] != "rejected" else int(r.get("nevents", 0)),
                         "wall_ms": int(r.get("wall", 0) * 1000), "limit_ms": scaled_bound_ms(r, job, wall_of),
                         "leafs": len(leafs), "sched": sched, "warned": bool(r.get("warns")), "inHorizon": in_h,
                         "mustReject": gen.cannot_be_grammatical(job["text"]) or bool(job.get("must_reject"))})
        verdicts, res = decide_outcomes(rows)
        run.add_tlc(res)
        classes = {}
        for row in rows:
            run.evaluated()
            ok, why = verdicts[row["id"]]
            cls = row["status"] if row["status"] != "ok" else ("ok-partial" if row["sched"] < row["leafs"] else "ok")
            classes[cls] = classes.get(cls, 0) + 1
            if cls != "ok":
                run.nontrivial(phash(by_id[row["id"].split("#sc")[0]]["text"]))
            if not ok:
                rec = next(x for x in recs if x["id"] == row["id"])
                run.violation(row["id"], by_id[row["id"].split("#sc")[0]], {"run": row, "why": why, "error": rec.get("error", "")[-600:]})
        run.notes["outcome_classes"] = classes
        # traces of accepted runs: C11 flags of TraceSched (crash inside a step, leaf neither scheduled nor warned)
        tlc_ok = [r for r in recs if "project" in r and r.get("status") in ("ok", "crash") and len(r["events"]) <= 4000 and e1.fits32(r)]
        run.notes["traces_beyond_tlc_int_range_or_4000_events"] = len([r for r in recs if "project" in r and r.get("status") in ("ok", "crash")]) - len(tlc_ok)
        vs, res2 = e1.validate(tlc_ok)
        run.add_tlc(res2)
        run.cov["traces_validated_against_impl"] += len(vs)
        for v in vs.values():
            hits = v.of("C11")
            if hits and not any(x["summary"].get("run", {}).get("id") == v.id for x in run.violations if isinstance(x["summary"], dict)):
                run.violation(v.id + "-trace", by_id[v.id.split("#sc")[0]], {"trace": v.id, "failed": [list(h[:3]) + [str(h[3])[:200]] for h in hits[:4]]})
        for row in rows[:2] + [x for x in rows if x["status"] == "rejected"][:2]:
            run.sample({"run": row, "verdict": verdicts[row["id"]]})
        if not replay:
            spec_side(run, tier)
    return run.finish()


def spec_side(run, tier):
    """Sched.tla over a universe that contains cycles, self-dependencies, unreachable bounds, resources that never work."""
    res = run_tlc("MC_Total", "MC_Total.cfg", timeout=3000, heap="8g")
    run.add_tlc(res)
    if res.invariant_violated or "Temporal properties were violated" in res.out or res.error:
        raise MachineryError("Sched.tla is not total on MC_Total (spec defect):\n" + res.out[-2000:])
    run.notes["spec_universe"] = {"module": "MC_Total", "states": res.distinct, "liveness": "<>Terminated under WF_vars(Next), no state constraint",
                                  "step_bound": "StepBound invariant"}
