"""C19 (CLI output contract) and C20 (no trace, no interference) decided with spec/Cli.tla.

C19: TLC enumerates every situation of one invocation and prints the terminal state of the Cli state machine;
     each is replayed against the real `plan report` entry point in a private cwd and TMPDIR and the observation
     (exit status, what stdout is, stderr, leftovers) compared with the terminal state.
C20: TLC checks all interleavings of 3 processes (and finds the interference in the shared-name variant);
     real runs: N concurrent processes in one cwd / TMPDIR compared byte for byte with solitary runs, directory
     listings before / after, and strace file-operation logs checked for path ownership by spec/FsTrace.tla."""
import hashlib
import json
import os
import random
import re
import shutil
import subprocess
import tempfile
import time

from harness import tlaval
from harness.build import scratch_build, env_for, PY, MachineryError
from harness.common import Run, phash
from harness.tlc import run_tlc

BASE = '''project p "P" 2024-01-01 +2w {
  timezone "UTC"
}
resource r0 "r0" {}
resource r1 "r1" { efficiency 0.5 }
task a "a" { effort 5h allocate r0 }
task c "c" {
  task b "b" { effort 3h allocate r0 depends !!a }
  task m "m" { milestone depends !b }
  task d "d" { effort 90min allocate r1 priority 700 }
}
'''
OWN = {
    "none": "",
    "json": 'taskreport zzz_own "zzz_own" {\n  formats json\n  columns id, effort\n}\n',
    "csv": 'taskreport zzz_own "zzz_own" {\n  formats csv\n  columns id, effort\n}\n',
    "both": 'taskreport zzz_own "zzz_own" {\n  formats json, csv\n  columns id, effort, priority\n}\n',
    "jsonfirst": 'taskreport aaa_own "aaa_own" {\n  formats json, csv\n  columns id, effort\n}\n',
}
OWN["escape"] = 'taskreport zzz_esc "../zzz_escaped" {\n  formats json, csv\n  columns id, effort\n}\n'
OWN["badname"] = 'taskreport zzz_bad "zzz:bad" {\n  formats csv\n  columns id\n}\n'
# own reports whose id is part of every auto-report id ("plan_auto_<hex>") or that have no id at all, with a name the library
# refuses: never asked for, so never generated
OWN["planid"] = 'taskreport plan "Status: week 2" {\n  formats csv\n  columns id\n}\ntaskreport auto "auto?" {\n  formats json\n  columns id\n}\n'
OWN["noid"] = 'taskreport "Status: week 2" {\n  formats csv\n  columns id\n}\n'
OWN["subdir"] = ('taskreport zzz_sub "weekly/zzz_own" {\n  formats json, csv\n  columns id, effort\n'
                 '  taskreport zzz_deep "weekly/detail/zzz_tasks" {\n    formats csv\n    columns id\n  }\n}\n')
TASK_IDS = ["a", "c", "c.b", "c.m", "c.d"]
# tasks that cannot be scheduled: no allocation; a dependency loop
PARTIAL = 'task u "u" { effort 2h }\ntask v "v" { effort 2h allocate r0 depends !w }\ntask w "w" { effort 2h allocate r0 depends !v }\n'


# a project with more than a thousand tasks for the scheduler to place (progress indication, if any, belongs on stderr)
LARGE_N = 1200
LARGE = ('project p "P" 2024-01-01 +8w {\n  timezone "UTC"\n}\n' + "".join('resource q%d "Q" {}\n' % i for i in range(40))
         + "".join('task w%04d "W" { effort 2h allocate q%d }\n' % (i, i % 40) for i in range(LARGE_N)))


def ids_for(sit):
    if sit["input"] == "large":
        return ["w%04d" % i for i in range(LARGE_N)]
    return TASK_IDS + (["u", "v", "w"] if sit["input"] == "partial" else [])


LIBEXIT = 'taskreport refused "out:put" {\n  formats csv\n  columns id\n}\n'   # ':' in a report file name: the library calls sys.exit


# a project that keeps the scheduler busy for seconds (the interrupt has to arrive while the run is under way)
SLOW = ('project p "P" 2024-01-01 +3y {\n  timezone "UTC"\n}\n' + "".join('resource r%d "R" {}\n' % i for i in range(20))
        + "".join('task t%d "T" { effort 100d allocate r%d }\n' % (i, i % 20) for i in range(120)))
FSIZE_LIMIT = 65536
# 400 one-line milestones: about 12 kB of input, about 40 kB of JSON / 20 kB of CSV
WIDE = ('project p "P" 2024-01-01 +2w {\n  timezone "UTC"\n}\n' + "".join('task m%03d "M" { start 2024-01-0%d }\n' % (i, 2 + i % 7) for i in range(400)))
_FSIZE_OUT = {}


def fsize_out_limit(scr):
    """A file size limit that lets every temporary file be written but not the final --output file: the JSON report in the temp
    directory carries the random report id (26 characters), the final one the SHA-256 (64): measured once without a limit."""
    if scr not in _FSIZE_OUT:
        wd = tempfile.mkdtemp(prefix="spcal_")
        try:
            src = os.path.join(wd, "in.tjp")
            with open(src, "w") as f:
                f.write(WIDE)
            out = os.path.join(wd, "out.json")
            p = subprocess.run([PY, "-m", "scriptplan.cli.plan", "report", "--output", out, src], cwd=wd, env=env_for(scr, hooks=False, extra={"TMPDIR": wd}),
                               stdout=subprocess.PIPE, stderr=subprocess.PIPE, timeout=300)
            # (a tree on which this plain run fails is judged by the situations of the check, not here: any limit will do then)
            _FSIZE_OUT[scr] = os.path.getsize(out) - 20 if os.path.exists(out) and os.path.getsize(out) > 40 else 400
        finally:
            shutil.rmtree(wd, ignore_errors=True)
    return _FSIZE_OUT[scr]


def text_for(sit):
    """The input of a situation: str, or bytes for input that is not valid UTF-8, or None (no file)."""
    if sit.get("fault") in ("sigint", "sigterm", "sighup"):
        return SLOW.replace("task t0 ", "tsak t0 ") if sit["input"] == "syntax" else SLOW
    if sit.get("fault") in ("fsizeout", "fsizerep"):     # a small input whose report is larger than the file size limit
        return WIDE
    if sit.get("fault") == "fsize":        # larger than the file size limit the process runs under
        return text_for({k: v for k, v in sit.items() if k != "fault"}) + "# padding\n" * (3 * FSIZE_LIMIT // 10)
    i = sit["input"]
    if i == "ok":
        return BASE + OWN[sit["own"]]
    if i in ("badfname", "nlfname"):
        return BASE + OWN[sit["own"]]
    if i == "large":
        return LARGE
    if i == "nonascii":       # valid UTF-8 beyond ASCII in a name: the bytes are what is hashed, whatever the locale
        return (BASE + OWN[sit["own"]]).replace('task a "a"', 'task a "Caf\u00e9 \u2013 \u6771\u4eac"')
    if i == "partial":
        return BASE + PARTIAL + OWN[sit["own"]]
    if i == "crlf":
        return (BASE + OWN[sit["own"]]).replace("\n", "\r\n")
    if i == "libexit":
        return BASE + OWN[sit["own"]] + LIBEXIT
    if i == "undecodable":
        return (BASE + OWN[sit["own"]]).encode().replace(b'"P"', b'"P\xff\xfe\xc3"')
    if i == "syntax":
        return (BASE + OWN[sit["own"]]).replace("task a", "tsak a")
    if i == "model":
        return (BASE + OWN[sit["own"]]).replace('project p "P" 2024-01-01 +2w', 'project p "P" 2024-02-30 +2w')
    if i == "empty":
        return ""
    if i == "blank":
        return "  \n\t\n"
    return None


def fname_for(sit, cwd):
    """Path of the input file of a path situation (bytes for a name that is not valid UTF-8)."""
    if sit["input"] == "badfname":
        return os.path.join(os.fsencode(cwd), b"caf\xe9 input.tjp")
    if sit["input"] == "nlfname":         # a newline in the NAME: the name must not become project text
        return os.path.join(cwd, 'x\ntask zz "Z" { duration 2d }\n#.tjp')
    if sit["input"] == "unreadable":
        return unreadable_file()
    return os.path.join(cwd, sit.get("fname", "input.tjp"))


_UNREADABLE = []


def unreadable_file():
    """A regular, non-empty file whose read() fails even for root (a sysfs attribute), or None."""
    if _UNREADABLE:
        return _UNREADABLE[0]
    import stat
    cands = ["/sys/class/zram-control/hot_remove", "/sys/class/zram-control/hot_add"]
    for root, _ds, fs in os.walk("/sys/devices"):
        cands += [os.path.join(root, f) for f in fs if f in ("autosuspend_delay_ms", "hot_remove")]
        if len(cands) > 40:
            break
    found = None
    for c in cands:
        try:
            st = os.stat(c)
            if not stat.S_ISREG(st.st_mode) or not st.st_size:
                continue
            with open(c, "rb") as fh:
                fh.read()
        except OSError:
            found = c
            break
    _UNREADABLE.append(found)
    return found


def as_bytes(text):
    return text if isinstance(text, bytes) else (text or "").encode()


def fault_kwargs(sit, scr=None):
    if sit.get("fault") in ("fsize", "fsizeout", "fsizerep"):
        import resource
        # fsizerep: the copies of the input fit, the report (larger than the input in both formats) does not
        lim = FSIZE_LIMIT if sit["fault"] == "fsize" else (len(WIDE) + 1000 if sit["fault"] == "fsizerep" else fsize_out_limit(scr))
        return {"preexec_fn": lambda: resource.setrlimit(resource.RLIMIT_FSIZE, (lim, lim))}
    return {}


def interrupt_when_running(p, tmpd, own_only=True, limit=60.0, sig="sigint"):
    """A signal once the run is under way: its plan_auto_* copy exists (solitary TMPDIR), plus a moment to get into the engine."""
    import signal
    import threading
    signum = {"sigint": signal.SIGINT, "sigterm": signal.SIGTERM, "sighup": signal.SIGHUP}[sig]

    def watch():
        end = time.time() + limit
        while time.time() < end and p.poll() is None:
            try:
                names = os.listdir(tmpd)
            except OSError:
                names = []
            if any(n.startswith("plan_auto_") or n.startswith("plan_output_") for n in names):
                time.sleep(0.4)
                if p.poll() is None:
                    p.send_signal(signum)
                return
            time.sleep(0.01)
    th = threading.Thread(target=watch, daemon=True)
    th.start()
    return th


def dead_pipe():
    """A pipe whose reader has gone away: every write fails with EPIPE."""
    r, w = os.pipe()
    os.close(r)
    return w


def invoke(scr, sit, cwd, tmpdir, text=None, timeout=300, strace=None, hashseed=None):
    """Run one real `plan report` for the situation; returns observation dict."""
    text = text_for(sit) if text is None else text
    args = [PY, "-m", "scriptplan.cli.plan", "report"]
    if sit["format"] == "csv":
        args.append("--csv")
    stdin_data = None
    inbytes = None
    if sit["channel"] == "path":
        if sit["input"] == "missing":
            args.append(os.path.join(cwd, "no_such_file.tjp"))
        elif sit["input"] == "directory":
            args.append(cwd)
        else:
            args.append(fname_for(sit, cwd))
            inbytes = as_bytes(text)
    else:
        if sit["channel"] == "dash":
            args.append("-")
        stdin_data = as_bytes(text)
        inbytes = stdin_data
    outfile = None
    pre = None
    if sit.get("out", "stdout") not in ("stdout", "brokenpipe", "stderrfull"):
        outfile = sit["outfile"] if sit["out"] != "baddir" else os.path.join(os.path.dirname(sit["outfile"]), "no", "such", "dir", "result")
        args[args.index("report") + 1:args.index("report") + 1] = ["--output", outfile] + (["--force"] if sit["out"] == "force" else [])
        if sit["out"] in ("exists", "force"):
            pre = b"PRE-EXISTING CONTENT\n"
            with open(outfile, "wb") as f:
                f.write(pre)
    if strace:
        args = ["strace", "-f", "-qq", "-e", "trace=file", "-o", strace] + args
    env = env_for(scr, hooks=False, extra={"TMPDIR": tmpdir})
    if hashseed is not None:
        env["PYTHONHASHSEED"] = hashseed
    if sit.get("env") == "latin1io":
        env["PYTHONIOENCODING"] = "latin-1"
    elif sit.get("env") == "clocale":
        env.update({"LC_ALL": "C", "LANG": "C", "PYTHONUTF8": "0", "PYTHONCOERCECLOCALE": "0"})
    if sit.get("out") == "brokenpipe":
        w = dead_pipe()
        try:
            p = subprocess.run(args, cwd=cwd, env=env, input=stdin_data if stdin_data is not None else b"", stdout=w,
                               stderr=subprocess.PIPE, timeout=timeout)
        finally:
            os.close(w)
        p.stdout = b""
    elif sit.get("out") == "stderrfull":
        with open("/dev/full", "wb") as full:
            p = subprocess.run(args, cwd=cwd, env=env, input=stdin_data if stdin_data is not None else b"", stdout=subprocess.PIPE,
                               stderr=full, timeout=timeout)
        p.stderr = b"(stderr was /dev/full)"
    else:
        p = subprocess.run(args, cwd=cwd, env=env, input=stdin_data if stdin_data is not None else b"", stdout=subprocess.PIPE,
                           stderr=subprocess.PIPE, timeout=timeout)
    written = None
    if outfile is not None and os.path.exists(outfile):
        written = open(outfile, "rb").read()
    return {"exit": p.returncode, "stdout": p.stdout, "stderr": p.stderr, "inbytes": inbytes, "written": written, "pre": pre}


def classify(sit, obs):
    """What stdout is: none | auto | foreign | garbage, plus detail checks of the contract."""
    out = obs["stdout"]
    if not out.strip():
        return "none", {}
    detail = {}
    if sit["format"] == "json":
        try:
            d = json.loads(out)
        except Exception:
            return "garbage", {"why": "stdout is not well-formed JSON"}
        if not isinstance(d, dict) or set(d) != {"data", "columns", "report_id"}:
            return "garbage", {"why": "JSON keys %s" % (sorted(d) if isinstance(d, dict) else type(d).__name__)}
        detail["report_id_ok"] = obs["inbytes"] is not None and d["report_id"] == hashlib.sha256(obs["inbytes"]).hexdigest()
        if d["columns"] != ["id", "start", "end"]:
            return "foreign", dict(detail, columns=d["columns"])
        ids = [r.get("id") for r in d["data"]]
        detail["ids"] = ids
        detail["rows"] = [[r.get("id"), r.get("start"), r.get("end")] for r in d["data"]]
        if ids != ids_for(sit) or not detail["report_id_ok"]:
            return "foreign", detail
        return "auto", detail
    lines = out.decode().strip().splitlines()
    head = [x.strip().lower() for x in lines[0].split(",")]
    if head != ["id", "start", "end"]:
        return "foreign", {"header": lines[0]}
    rows = [l.split(",") for l in lines[1:]]
    detail["rows"] = rows
    detail["ids"] = [r[0] for r in rows]
    if detail["ids"] != ids_for(sit):
        return "foreign", detail
    return "auto", detail


def listing(d):
    out = []
    for root, dirs, files in os.walk(d):
        for n in dirs + files:
            out.append(os.path.relpath(os.path.join(root, n), d))
    return sorted(out)


def enumerate_situations(cfg="MC_Cli1.cfg"):
    res = run_tlc("MC_Cli", cfg, timeout=600, workers=8)
    if res.error or res.invariant_violated or "Temporal properties were violated" in res.out:
        raise MachineryError("Cli.tla violates its own contract:\n" + res.out[-1500:])
    terms = []
    for m in re.finditer(r'<<"CLITERM", "((?:[^"\\]|\\.)*)">>', res.out):
        terms.append(json.loads(m.group(1).encode().decode("unicode_escape"))[0])
    if not terms:
        raise MachineryError("Cli.tla printed no terminal states")
    return terms, res


def check_c19(prop, tier, replay=None):
    run = Run("C19", tier)
    run.cov["rule"] = ("every situation of Cli.tla: input class {missing, directory, empty, blank stream, syntax error, model error, ok} x channel {path, '-', stdin} "
                       "x format {json, csv} x own reports {none, json, csv, both, own report sorting before the auto report}; each terminal state is replayed "
                       "against the real entry point (python -m scriptplan.cli.plan report) in a private cwd and TMPDIR; thorough repeats under 3 hash seeds "
                       "and with generated projects as input; non-trivial = every situation (each is a distinct contract case)")
    run.assumptions = ["the entry point is invoked as python -m scriptplan.cli.plan from the scratch copy (the console script of the venv points at /repo)"]
    terms, res = enumerate_situations()
    run.add_tlc(res)
    if replay:
        terms = [json.load(open(replay))["term"]]
    if unreadable_file() is None:        # no regular file here whose read() fails for this user: the situation cannot be staged
        run.cov["situations_not_staged"] = len([t for t in terms if t["sit"]["input"] == "unreadable"])
        run.assumptions.append("no unreadable regular file could be found on this machine; the 'unreadable' situations were not replayed")
        terms = [t for t in terms if t["sit"]["input"] != "unreadable"]
    seeds = ["0"] if tier == "quick" else ["0", "1", "777"]
    with scratch_build() as scr:
        auto_rows = {}
        results = []
        def one(arg):
            hs, t = arg
            sit = t["sit"]
            wd = tempfile.mkdtemp(prefix="spcli_")
            try:
                cwd = os.path.join(wd, "cwd")
                tmpd = os.path.join(wd, "tmp")
                os.mkdir(cwd)
                os.mkdir(tmpd)
                text = text_for(sit)
                if sit["channel"] == "path" and text is not None:
                    with open(fname_for(sit, cwd), "wb") as f:
                        f.write(as_bytes(text))
                before = listing(cwd)
                outd = os.path.join(wd, "out")
                os.mkdir(outd)
                sit = dict(sit, outfile=os.path.join(outd, "result." + sit["format"]))
                obs = invoke(scr, sit, cwd, tmpd, hashseed=hs)
                kind, detail = classify(sit, obs)
                wkind = "none"
                if sit["out"] not in ("stdout", "brokenpipe", "stderrfull"):
                    if obs["written"] == obs["pre"]:
                        wkind = "none"              # nothing written / the pre-existing file is untouched
                    elif sit["out"] == "exists":
                        wkind = "clobbered"
                    else:
                        wkind, _ = classify(sit, dict(obs, stdout=obs["written"]))
                left_tmp = listing(tmpd)
                new_cwd = [x for x in listing(cwd) if x not in before]
                # ... and where the --output target lies nothing but the target itself appears
                new_cwd += ["(next to the --output target) " + x for x in listing(outd) if x != os.path.basename(sit["outfile"])]
            finally:
                shutil.rmtree(wd, ignore_errors=True)
            return hs, t, sit, text, obs, kind, detail, wkind, left_tmp, new_cwd

        from concurrent.futures import ThreadPoolExecutor
        with ThreadPoolExecutor(max_workers=10) as ex:
            outcomes = list(ex.map(one, [(hs, t) for hs in seeds for t in terms]))
        for hs, t, sit, text, obs, kind, detail, wkind, left_tmp, new_cwd in outcomes:
            if True:
                run.evaluated()
                run.nontrivial(phash(sit))
                key = "%s-%s-%s-%s-%s%s-seed%s" % (sit["input"], sit["channel"], sit["format"], sit["own"], sit["out"], ("-" + sit["env"]) if sit.get("env") else "", hs)
                problems = []
                ok_exits = set(t["okExits"])         # decided by the spec (AllowedExit)
                if obs["exit"] not in ok_exits:
                    problems.append("exit status %d, contract says %s" % (obs["exit"], sorted(ok_exits)))
                elif obs["exit"] != t["exit"] and obs["exit"] != 0:
                    t = dict(t, stdout="none", written="none", stderr=True)      # an admissible failure: nothing is emitted
                if wkind != t["written"]:
                    problems.append("the --output file is '%s', contract says '%s'" % (wkind, t["written"]))
                if kind != t["stdout"]:
                    problems.append("stdout is '%s', contract says '%s' %s" % (kind, t["stdout"], {k: v for k, v in detail.items() if k != "rows"}))
                if t["stderr"] and not obs["stderr"].strip():
                    problems.append("failure without a diagnostic on stderr")
                if left_tmp:
                    problems.append("left in TMPDIR: %s" % left_tmp[:4])
                if new_cwd:
                    problems.append("created outside TMPDIR: %s" % new_cwd[:4])
                if kind == "auto":
                    # same text <=> same input class (ok / crlf): rows must agree within a format, bytes within (format, text)
                    auto_rows.setdefault((sit["format"], "ok" if sit["input"] in ("badfname", "nlfname") else sit["input"]), []).append((key, detail["rows"], obs["stdout"] if sit["own"] == "none" else None, sit))
                if problems:
                    run.violation(key, {"term": t, "text": text if isinstance(text, (str, type(None))) else text.decode("latin-1")}, {"situation": sit, "problems": problems, "stderr": obs["stderr"][-300:].decode(errors="replace")})
                results.append((key, kind, obs["exit"]))
        # the emitted report is the same whatever the channel and whatever other reports the file defines
        for fmt, lst in auto_rows.items():
            ref_rows = lst[0][1]
            for key, rows, raw, sit in lst:
                if rows != ref_rows:
                    run.violation(key + "-rows", {"situation": sit}, {"why": "the id/start/end rows differ between situations with the same project", "rows": rows, "reference": ref_rows})
            raws = {}
            for key, rows, raw, sit in lst:
                if raw is not None:
                    raws.setdefault(raw, []).append(key)
            if len(raws) > 1:
                run.violation("bytes-%s-%s" % fmt, {"keys": list(raws.values())}, {"why": "stdout bytes differ between input channels for the same text", "groups": [v[:3] for v in raws.values()]})
        run.cov["traces_validated_against_impl"] += len(results)
        run.cov["exhaustive"] = True
        for t in terms[:3]:
            run.sample({"terminal_state_of_spec": t})
    return run.finish()


# ==============================================================================================
# C20
# ==============================================================================================
CONC_SITS = [
    {"input": "ok", "channel": "path", "format": "json", "own": "json"},
    {"input": "ok", "channel": "stdin", "format": "json", "own": "none"},
    {"input": "syntax", "channel": "path", "format": "csv", "own": "both"},
    {"input": "empty", "channel": "stdin", "format": "json", "own": "none"},
    {"input": "ok", "channel": "path", "format": "csv", "own": "csv"},
    {"input": "ok", "channel": "dash", "format": "csv", "own": "jsonfirst"},
    {"input": "model", "channel": "dash", "format": "json", "own": "none"},
    {"input": "missing", "channel": "path", "format": "json", "own": "none"},
    {"input": "ok", "channel": "path", "format": "json", "own": "none", "out": "exists"},
    {"input": "ok", "channel": "stdin", "format": "csv", "own": "both", "out": "exists"},
    {"input": "ok", "channel": "path", "format": "csv", "own": "none", "out": "newfile"},
    {"input": "undecodable", "channel": "path", "format": "json", "own": "none"},
    {"input": "undecodable", "channel": "stdin", "format": "csv", "own": "both"},
    {"input": "crlf", "channel": "stdin", "format": "json", "own": "none"},
    {"input": "ok", "channel": "path", "format": "json", "own": "both", "out": "brokenpipe"},
    {"input": "ok", "channel": "stdin", "format": "csv", "own": "none", "out": "baddir"},
    {"input": "ok", "channel": "path", "format": "json", "own": "escape"},
    {"input": "ok", "channel": "stdin", "format": "csv", "own": "badname"},
    {"input": "ok", "channel": "path", "format": "csv", "own": "subdir"},
    {"input": "partial", "channel": "stdin", "format": "json", "own": "subdir"},
    {"input": "partial", "channel": "path", "format": "csv", "own": "none"},
    {"input": "ok", "channel": "path", "format": "json", "own": "none", "fault": "sigint"},
    {"input": "ok", "channel": "stdin", "format": "json", "own": "none", "fault": "fsize"},
]


def parse_strace(path, tmpd, cwd, pre):
    """File operations of one process (and its children) on new paths below tmpd / cwd."""
    evs = []
    rx = re.compile(r'^\d+\s+(\w+)\((.*)\)\s+=\s+(-?\d+)')
    for line in open(path, errors="replace"):
        m = rx.match(line)
        if not m:
            continue
        call, args, ret = m.group(1), m.group(2), int(m.group(3))
        if ret < 0:
            continue
        pm = re.findall(r'"((?:[^"\\]|\\.)*)"', args)
        if not pm:
            continue
        p = pm[0]
        if not os.path.isabs(p):
            # *at() calls: relative to the directory descriptor, which strace -y prints as N</path>
            bm = re.match(r'\s*(?:AT_FDCWD|\d+)<([^>]*)>', args)
            base = bm.group(1) if bm else cwd
            p = os.path.normpath(os.path.join(base, p))
        if not (p.startswith(tmpd + "/") or p.startswith(cwd + "/")):
            continue
        if p in pre:
            continue
        op = None
        if call in ("openat", "open", "creat"):
            op = "create" if ("O_CREAT" in args or call == "creat") else "read"
        elif call == "mkdir" or call == "mkdirat":
            op = "mkdir"
        elif call == "rmdir":
            op = "rmdir"
        elif call == "unlink":
            op = "unlink"
        elif call == "unlinkat":
            op = "rmdir" if "AT_REMOVEDIR" in args else "unlink"
        elif call in ("rename", "renameat", "renameat2"):
            op = "create"
            p = pm[-1] if os.path.isabs(pm[-1]) else os.path.normpath(os.path.join(cwd, pm[-1]))
        if op is None:
            continue
        evs.append((op, p))
    return evs


def kind_of(p, tmpd, cwd):
    if p.startswith(cwd + "/"):
        return "cwd"
    rel = p[len(tmpd) + 1:]
    top = rel.split("/")[0]
    if "/" in rel and top.startswith("plan_output_"):
        return "report"
    if top.startswith("plan_output_"):
        return "outdir"
    if top.startswith("plan_stdin_"):
        return "stdin"
    if top.startswith("plan_auto_"):
        return "auto"
    return "other"


def decide_fs(exps):
    fd, path = tempfile.mkstemp(prefix="spfs_", suffix=".ndjson")
    try:
        with os.fdopen(fd, "w") as f:
            for x in exps:
                f.write(json.dumps(x) + "\n")
        res = run_tlc("FsTrace", "FsTrace.cfg", env_extra={"FS_FILE": path}, timeout=900)
    finally:
        os.unlink(path)
    if res.error:
        raise MachineryError("TLC failed on FsTrace:\n" + res.out[-2000:])
    out = {}
    for raw in res.tuples("FSTRACE"):
        _, xid, foreign, left, strange, order = tlaval.parse(raw)
        out[xid] = {"foreign": foreign, "leftover": left, "created_in_cwd": strange, "order": order}
    if len(out) != len(exps):
        raise MachineryError("FsTrace: %d verdicts for %d experiments" % (len(out), len(exps)))
    return out, res


def concurrent_round(scr, sits, same_text=True, with_strace=False):
    """Run all situations at once in ONE cwd and ONE TMPDIR.  Returns per-process observations + listings + strace events."""
    wd = tempfile.mkdtemp(prefix="spconc_")
    try:
        cwd = os.path.join(wd, "cwd")
        tmpd = os.path.join(wd, "tmp")
        logs = os.path.join(wd, "logs")
        outs = os.path.join(wd, "outs")
        for d in (cwd, tmpd, logs, outs):
            os.mkdir(d)
        texts = []
        for i, s in enumerate(sits):
            t = text_for(s)
            texts.append(t)
            if s["channel"] == "path" and t is not None:
                fname = "input.tjp" if same_text else "input%d.tjp" % i
                s = dict(s, fname=fname)
                sits[i] = s
                with open(os.path.join(cwd, fname), "wb") as f:
                    f.write(as_bytes(t))
        before = listing(cwd)
        pre = {os.path.join(cwd, x) for x in before} | {cwd, tmpd}
        procs = []
        outfiles = []
        env = env_for(scr, hooks=False, extra={"TMPDIR": tmpd})
        for i, s in enumerate(sits):
            args = [PY, "-m", "scriptplan.cli.plan", "report"]
            if s["format"] == "csv":
                args.append("--csv")
            data = None
            of = None
            if s.get("out", "stdout") not in ("stdout", "brokenpipe", "stderrfull"):
                of = os.path.join(outs, "result%d.%s" % (i, s["format"])) if s["out"] != "baddir" else os.path.join(outs, "no", "such%d" % i, "result")
                args += ["--output", of] + (["--force"] if s["out"] == "force" else [])
                if s["out"] in ("exists", "force"):
                    with open(of, "w") as f:
                        f.write("PRE-EXISTING\n")
            if s["channel"] == "path":
                args.append(os.path.join(cwd, "no_such_file.tjp") if s["input"] == "missing" else (cwd if s["input"] == "directory" else os.path.join(cwd, s["fname"])))
            else:
                if s["channel"] == "dash":
                    args.append("-")
                data = as_bytes(texts[i])
            if with_strace:
                args = ["strace", "-f", "-y", "-qq", "-e", "trace=file", "-o", os.path.join(logs, "p%d.log" % i)] + args
            if s.get("out") == "brokenpipe":
                w = dead_pipe()
                p = subprocess.Popen(args, cwd=cwd, env=env, stdin=subprocess.PIPE, stdout=w, stderr=subprocess.PIPE)
                os.close(w)
            else:
                p = subprocess.Popen(args, cwd=cwd, env=env, stdin=subprocess.PIPE, stdout=subprocess.PIPE, stderr=subprocess.PIPE, **fault_kwargs(s, scr))
            if s.get("fault") in ("sigint", "sigterm", "sighup"):
                interrupt_when_running(p, tmpd, sig=s["fault"])
            procs.append((p, data))
            outfiles.append(of)
        # feed stdin and collect concurrently
        import threading
        res = [None] * len(procs)

        def pump(i):
            p, data = procs[i]
            try:
                out, err = p.communicate(input=data if data is not None else b"", timeout=600)
                res[i] = {"exit": p.returncode, "stdout": out or b"", "stderr": err}
            except subprocess.TimeoutExpired:
                p.kill()
                res[i] = {"exit": -9, "stdout": b"", "stderr": b"TIMEOUT"}
        th = [threading.Thread(target=pump, args=(i,)) for i in range(len(procs))]
        for t in th:
            t.start()
        for t in th:
            t.join()
        after_cwd = [x for x in listing(cwd) if x not in before]
        after_tmp = listing(tmpd)
        for i, of in enumerate(outfiles):
            if of is not None and res[i] is not None:
                res[i]["outfile"] = open(of, "rb").read() if os.path.exists(of) else None
                res[i]["outdir_listing"] = listing(os.path.dirname(of)) if os.path.isdir(os.path.dirname(of)) else []
                res[i]["outs_listing"] = listing(outs)        # everything below the directory the --output targets of this round lie in
        fs = None
        if with_strace:
            names = {}
            fs = []
            for i in range(len(sits)):
                evs = parse_strace(os.path.join(logs, "p%d.log" % i), tmpd, cwd, pre)
                fs.append([{"op": op, "kind": kind_of(p, tmpd, cwd), "path": names.setdefault(p, len(names) + 1)} for op, p in evs])
        return res, after_cwd, after_tmp, fs
    finally:
        shutil.rmtree(wd, ignore_errors=True)


def norm_out(sit, b):
    """stdout modulo nothing: the bytes must be identical to the solitary run (random ids never reach stdout)."""
    return b


def check_c20(prop, tier, replay=None):
    run = Run("C20", tier)
    run.cov["rule"] = ("spec: all interleavings of 3 Cli processes at file-operation granularity over 5 situations each (125 initial states) incl. failing ones: "
                       "NoTrace, Isolation, ExitContract, <>AllDone; the shared-output-name variant must violate them (non-vacuity). code: rounds of N real "
                       "processes started together in ONE cwd and ONE TMPDIR on the same and on different inputs incl. failing ones (N = 8, 16 quick; up to 128 "
                       "thorough): stdout byte-identical to the solitary run, exit status equal, cwd unchanged, TMPDIR empty; strace -f -e trace=file logs of "
                       "concurrent processes checked by FsTrace.tla (path ownership, everything created is removed, nothing created in cwd, creation order follows "
                       "the Cli actions); non-trivial = distinct (round, process) pair")
    run.assumptions = ["strace sees every file-system call of the process tree", "processes are started within milliseconds of each other; the OS scheduler provides the interleavings (not controlled)"]
    res3 = run_tlc("MC_Cli", "MC_Cli3.cfg", timeout=1200)
    if res3.error or res3.invariant_violated or "Temporal properties were violated" in res3.out:
        raise MachineryError("Cli.tla (3 processes) violates its own invariants:\n" + res3.out[-1500:])
    run.add_tlc(res3)
    shared = run_tlc("MC_Cli", "MC_CliShared.cfg", timeout=600, workers=4)
    if not shared.invariant_violated:
        raise MachineryError("the shared-name variant of Cli.tla no longer shows interference: invariants are vacuous")
    run.add_tlc(shared)
    run.notes["spec"] = {"three_processes_states": res3.distinct, "shared_name_variant_violates": shared.invariant_violated}
    rng = random.Random(run.seed * 7 + 20)
    with scratch_build() as scr:
        # solitary references
        solo = {}
        for s in CONC_SITS:
            r, c, t, _ = concurrent_round(scr, [dict(s)])
            solo[json.dumps(s, sort_keys=True)] = r[0]
            if c or t:
                run.violation("solo-%s-%s" % (s["input"], s["channel"]), {"situation": s}, {"why": "a solitary run leaves files behind", "cwd": c[:4], "tmp": t[:4]})
        # outside faults (interrupt, a temporary copy that cannot be written): every terminal situation of MC_CliFault, alone
        fterms, fres0 = enumerate_situations("MC_CliFault.cfg")
        run.add_tlc(fres0)
        ok_exits = {}
        for t in fterms:
            k = json.dumps({a: b for a, b in t["sit"].items() if a != "out" or t["sit"].get("fault") == "fsizeout"}, sort_keys=True)
            ok_exits.setdefault(k, set()).update(t["okExits"])
        for k in sorted(ok_exits):
            s = json.loads(k)
            for rep_ in range(1 if tier == "quick" else 3):
                r, c, t, _ = concurrent_round(scr, [dict(s)])
                run.evaluated()
                run.nontrivial(phash(["fault", k, rep_]))
                run.cov["traces_validated_against_impl"] += 1
                probs = []
                if c or t:
                    probs.append("files left behind: cwd %s tmp %s" % (c[:4], t[:4]))
                if r[0]["exit"] < 0 and s.get("fault") in ("sigint", "sigterm", "sighup"):
                    # the process died OF the signal (it arrived after the handlers were gone, during interpreter shutdown):
                    # the shell's name for that is 128 + signal number
                    r[0]["exit"] = 128 - r[0]["exit"]
                if r[0]["exit"] not in ok_exits[k]:
                    probs.append("exit status %d, the specification allows %s" % (r[0]["exit"], sorted(ok_exits[k])))
                if r[0]["exit"] != 0 and r[0]["stdout"].strip():
                    probs.append("a failed run wrote to stdout")
                if s.get("fault") == "fsizeout" and r[0]["exit"] != 0:
                    # a failed write of the --output file: no truncated report, nothing else next to it
                    if r[0].get("outfile") not in (None, b"PRE-EXISTING\n"):
                        probs.append("a truncated --output file stays behind (%d bytes)" % len(r[0]["outfile"]))
                    extra = [x for x in r[0].get("outdir_listing", []) if not x.startswith("result")]
                    if extra:
                        probs.append("left next to the --output file: %s" % extra[:3])
                if probs:
                    run.violation("fault-%s-%s-%s" % (s["fault"], s["input"], s["channel"]), {"situation": s},
                                  {"why": "an outside fault (interrupt / temporary copy cannot be written) is not survived cleanly", "problems": probs,
                                   "stderr": r[0]["stderr"][-300:].decode(errors="replace")})
        # --output: whatever the outcome, nothing but the target itself may appear where the target lies (no directories made
        # ahead of a run that then fails, no temporary sibling); the spec's `cwd` is everything created outside TMPDIR
        oterms, _ = enumerate_situations()
        osits = {}
        for t in oterms:
            if t["sit"].get("out") in ("newfile", "exists", "force", "baddir") and t["sit"]["own"] == "none":
                osits[json.dumps(t["sit"], sort_keys=True)] = t
        for k in sorted(osits):
            t = osits[k]
            s = dict(t["sit"])
            r, c, tm, _ = concurrent_round(scr, [dict(s)])
            run.evaluated()
            run.nontrivial(phash(["out", k]))
            run.cov["traces_validated_against_impl"] += 1
            allowed = set() if s["out"] == "baddir" else {"result0.%s" % s["format"]}
            extra = [x for x in r[0].get("outs_listing", []) if x not in allowed]
            probs = []
            if c or tm:
                probs.append("files left behind: cwd %s tmp %s" % (c[:4], tm[:4]))
            if extra:
                probs.append("created next to the --output target: %s" % extra[:4])
            if s["out"] == "newfile" and (r[0]["exit"] != 0) != (r[0].get("outfile") is None):
                probs.append("exit status %d but the --output file %s" % (r[0]["exit"], "exists" if r[0].get("outfile") is not None else "is missing"))
            if probs:
                run.violation("output-%s-%s-%s-%s" % (s["out"], s["input"], s["channel"], s["format"]), {"situation": s},
                              {"why": "a run with --output leaves something behind besides the target itself", "problems": probs,
                               "stderr": r[0]["stderr"][-300:].decode(errors="replace")})
        sizes = [8, 16] if tier == "quick" else [8, 16, 32, 64, 128, 128]
        rounds = []
        for n in sizes:
            rounds.append(("mixed%d" % n, [dict(rng.choice(CONC_SITS)) for _ in range(n)], False))
            rounds.append(("same%d" % n, [dict(CONC_SITS[0]) for _ in range(n)], True))
        for name, sits, same in rounds:
            res, c, t, _ = concurrent_round(scr, sits, same_text=same)
            run.cov["traces_validated_against_impl"] += len(sits)
            if c or t:
                run.violation("%s-leftover" % name, {"round": name, "situations": sits}, {"why": "files left behind after all processes exited", "cwd": c[:6], "tmp": t[:6]})
            for i, (s, r) in enumerate(zip(sits, res)):
                run.evaluated()
                run.nontrivial(phash([name, i]))
                s0 = {k: v for k, v in s.items() if k != "fname"}
                ref = solo[json.dumps(s0, sort_keys=True)]
                if s0.get("fault") == "sigint":        # when the signal arrives is not controlled here: any admissible exit, no partial output
                    ks = json.dumps(s0, sort_keys=True)
                    if r["exit"] < 0:
                        r["exit"] = 128 - r["exit"]
                    if r["exit"] not in ok_exits.get(ks, {0, 1, 130}) or (r["exit"] != 0 and r["stdout"].strip()):
                        run.violation("%s-p%d" % (name, i), {"round": name, "situations": sits, "process": i},
                                      {"why": "an interrupted process among others: inadmissible exit status or partial output", "exit": r["exit"], "stdout": r["stdout"][:200].decode(errors="replace")})
                    continue
                if r["exit"] != ref["exit"] or norm_out(s, r["stdout"]) != norm_out(s, ref["stdout"]):
                    run.violation("%s-p%d" % (name, i), {"round": name, "situations": sits, "process": i},
                                  {"why": "a process running concurrently with others does not produce what a solitary run produces", "situation": s0,
                                   "exit": r["exit"], "solo_exit": ref["exit"], "stdout_equal": r["stdout"] == ref["stdout"], "stderr": r["stderr"][-300:].decode(errors="replace")})
        # strace rounds
        exps = []
        for j in range(2 if tier == "quick" else 8):
            sits = [dict(rng.choice([c for c in CONC_SITS if "fault" not in c])) for _ in range(4 if tier == "quick" else 8)]
            res, c, t, fs = concurrent_round(scr, sits, same_text=False, with_strace=True)
            if any(len(p) > 290 for p in fs):
                raise MachineryError("strace log longer than FsTrace's bound")
            exps.append({"id": "strace%d" % j, "procs": fs})
            run.evaluated(len(sits))
        verdicts, fres = decide_fs(exps)
        run.add_tlc(fres)
        for x in exps:
            v = verdicts[x["id"]]
            if v["foreign"] or v["leftover"] or v["created_in_cwd"] or v["order"]:
                run.violation(x["id"], x, dict(v, why="file-operation log violates path ownership / clean-up / creation order of the Cli state machine"))
        run.sample({"strace_experiment": exps[0]["id"], "events_per_process": [len(p) for p in exps[0]["procs"]], "first_events": exps[0]["procs"][0][:6]})
        run.sample({"rounds": [r[0] for r in rounds]})
    return run.finish()
