#!/venv/bin/python
"""usage: tools/drift.py <profile> <n> [seed]  -- trace n projects of a generator profile and list every trace whose step
sequence differs from what SchedCore computes (conf = FALSE) with its first divergence, plus all property flags."""
import collections
import json
import os
import random
import sys
sys.path.insert(0, os.path.dirname(os.path.dirname(os.path.abspath(__file__))))
from harness import e1, gen
from harness.build import scratch_build

name, n = sys.argv[1], int(sys.argv[2])
seed = int(sys.argv[3]) if len(sys.argv) > 3 else 1
rng = random.Random(seed)
jobs = [{"id": pid, "text": p.render(), "scenarios": [0], "abstract": p.abstract()} for pid, p in getattr(gen, name)(rng, n)]
with scratch_build() as scr:
    recs = e1.run_impl(scr, jobs, nproc=14)
    vs, res = e1.validate(recs, workers=16)
kinds = collections.Counter()
by = {j["id"]: j for j in jobs}
os.makedirs("/tmp/drift", exist_ok=True)
for r in recs:
    v = vs.get(r["id"])
    if v is None:
        print("NO VERDICT", r["id"], r.get("status"), r.get("error", "")[-200:])
        continue
    if not v.conf or v.bad or not v.final_ok:
        what = str(v.div)[:260]
        kinds[(str(v.div[1][0]) if v.div else "-") + ("/bad" if v.bad else "")] += 1
        print(r["id"], "aligned", v.dialect.get("aligned"), "conf", v.conf, "final", v.final_ok, "div", what, "bad", [b[:3] for b in v.bad][:3])
        json.dump(by[r["id"]], open("/tmp/drift/%s.json" % r["id"], "w"))
print(len(recs), "traces;", dict(kinds))
