#!/bin/bash
# usage: tools/seedall.sh [pattern]   -- runs every seeded change (matching pattern) against the check of its property
# (scratch worktree + VERIF_REPO, /repo untouched); prints one line per seed; exit 1 if a seed is missed.
V=$(cd "$(dirname "$0")/.." && pwd)
cd $V
miss=0
oos=0
for d in seeded/${1:-*}/; do
  n=$(basename $d)
  prop=$(python3 -c "import json,sys; print(json.load(open('$d/meta.json'))['property'][:3])")
  if python3 -c "import json,sys; sys.exit(0 if json.load(open('$d/meta.json')).get('retired') else 1)"; then echo "seed=$n retired (harmless on the current tree)"; continue; fi
  all=$(tools/seedtest2.sh $n $prop 2>&1); line=$(echo "$all" | head -1)
  echo "$line" | cut -c1-200
  if ! echo "$line" | grep -q 'rc=1 '; then
    # a seed that manifests only outside the explored domain (documented in its meta.json and in DESIGN.md) is listed, not hidden
    if python3 -c "import json,sys; sys.exit(0 if json.load(open('$d/meta.json')).get('out_of_scope') else 1)"; then echo "   (outside the explored domain: $n)"; oos=$((oos+1)); else miss=$((miss+1)); fi
  fi
done
echo "missed=$miss outside_explored_domain=${oos:-0}"
[ $miss -eq 0 ]
