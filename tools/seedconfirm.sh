#!/bin/bash
# usage: tools/seedconfirm.sh <seed-dir-name>  -- confirms a seeded change in a fresh scratch worktree:
#  demo passes on the unchanged tree, patch applies, extensions build, suite passes, demo fails with the patch.
set -u
S=/verif/seeded/$1
W=$(mktemp -d /tmp/seedconf_XXXX)
cd /repo && git worktree add -q --detach "$W/wt" HEAD || exit 2
cleanup() { cd /repo; git worktree remove --force "$W/wt" 2>/dev/null; rm -rf "$W"; }
trap cleanup EXIT
cd "$W/wt"
/venv/bin/python setup.py build_ext --inplace -j3 >/dev/null 2>&1; rm -rf build
mkdir -p SEED; cp "$S/demo.py" SEED/
sed -i "s#/tmp/seed/[A-Za-z0-9_-]*#$W/wt#g" SEED/demo.py
PYTHONPATH="$W/wt" timeout 600 /venv/bin/python SEED/demo.py >/dev/null 2>&1; d0=$?
git apply "$S/patch.diff" || { echo "patch does not apply"; exit 3; }
if git diff --name-only | grep -q '\.pyx$'; then /venv/bin/python setup.py build_ext --inplace -j3 >/dev/null 2>&1; rm -rf build; git checkout -- scriptplan/_cython/*.c 2>/dev/null; fi
suite=$(PYTHONPATH="$W/wt" timeout 1200 /venv/bin/python -m pytest -q -p no:cacheprovider -x 2>&1 | tail -1)
PYTHONPATH="$W/wt" timeout 600 /venv/bin/python SEED/demo.py >/dev/null 2>&1; d1=$?
echo "seed=$1 demo_unchanged_rc=$d0 demo_patched_rc=$d1 suite_patched='$suite'"
/venv/bin/python - "$S/meta.json" "$d0" "$d1" "$suite" <<'PY'
import json,sys
p,d0,d1,suite=sys.argv[1:5]
m=json.load(open(p))
m['confirmed_by_verif']={'demo_rc_unchanged_tree':int(d0),'demo_rc_with_patch':int(d1),'suite_with_patch':suite,
  'how':'fresh git worktree of /repo HEAD outside /repo and /verif, extensions rebuilt, demo run before and after git apply, full pytest suite with the patch'}
json.dump(m,open(p,'w'),indent=1)
PY
