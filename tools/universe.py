#!/venv/bin/python
"""usage: tools/universe.py <prop> <module> <cfg> [final|trace]  -- run one bounded universe of Sched.tla, replay / trace every
project of it in the real code and print the summary (what the thorough tier does for that universe)."""
import json
import os
import sys
sys.path.insert(0, os.path.dirname(os.path.dirname(os.path.abspath(__file__))))
os.environ.setdefault("VERIF_EVID", "/tmp/evid_universe")
from harness import props_e1
from harness.build import scratch_build
from harness.common import Run

prop, module, cfg = sys.argv[1:4]
mode = sys.argv[4] if len(sys.argv) > 4 else "trace"
props_e1.MC_PLAN = {prop: [(module, cfg, cfg, "+22d" if module == "MC_Week" else ("+2w" if module in ("MC_Limits", "MC_Cal") else "+1w"), mode)]}
run = Run(prop, "thorough")
with scratch_build() as scr:
    props_e1.run_universes(run, scr, prop, "thorough")
print(json.dumps(run.notes.get("universes"), indent=1))
print("violations:", len(run.violations))
