#!/usr/bin/env python3
"""tools/mutsweep.py [--per-prop N] [--jobs J] [--seed S] [--props C01,C05] [--out DIR]

Mechanical mutation sweep (not a registered check; never edits /repo).  For every property the functions named in its
`anchors.mechanism[*].where` are looked up in a scratch worktree of /repo's HEAD, single-token mutants are drawn from
their bodies (comparison flips, off-by-one, and/or, dropped `not`, True/False, min/max, +/-), a mutant that still
compiles and passes the repository's own test suite is handed to that property's quick check (VERIF_REPO=<worktree>),
and the verdict (killed by tests / caught by the check / survived) is written to DIR/results.jsonl.  Survivors are
either equivalent mutants or gaps of the check; they are read by hand (DESIGN.md 8.x has the outcome).
"""
import argparse
import ast
import json
import os
import random
import re
import shutil
import subprocess
import sys
import tempfile
from concurrent.futures import ThreadPoolExecutor

V = os.path.dirname(os.path.dirname(os.path.abspath(__file__)))
REPO = "/repo"
PY = "/venv/bin/python"

SUBS = [
    (r" <= ", " < "), (r" < ", " <= "), (r" >= ", " > "), (r" > ", " >= "),
    (r" == ", " != "), (r" != ", " == "),
    (r" \+ 1\b", " + 2"), (r" - 1\b", " - 2"), (r" \+ 1\b", ""), (r" - 1\b", ""),
    (r" and ", " or "), (r" or ", " and "),
    (r"\bif not ", "if "), (r"\bTrue\b", "False"), (r"\bFalse\b", "True"),
    (r"\bmin\(", "max("), (r"\bmax\(", "min("),
    (r" \+= ", " -= "), (r" \+ ", " - "), (r" - ", " + "),
    (r"\bcontinue\b", "pass"), (r"\bbreak\b", "pass"),
    (r" is None\b", " is not None"), (r" is not None\b", " is None"),
    (r"\[0\]", "[-1]"), (r"\[-1\]", "[0]"),
    (r" // ", " / "), (r"\bceil\(", "floor("),
]


def anchors():
    out = {}
    for line in open(os.path.join(V, "properties.jsonl")):
        p = json.loads(line)
        sites = []
        for m in p["anchors"].get("mechanism", []):
            for part in m["where"].split(";"):
                part = part.strip()
                if ":" not in part:
                    continue
                f, names = part.split(":", 1)
                f = f.strip()
                if not f.endswith((".py", ".pyx")):
                    continue
                for n in names.split(","):
                    n = re.sub(r"\(.*?\)", "", n).strip().split(" ")[0]
                    n = n.split(".")[-1]
                    if re.fullmatch(r"[A-Za-z_][A-Za-z0-9_]*", n or ""):
                        sites.append((f, n))
        out[p["id"]] = sorted(set(sites))
    # C13's anchors name pairs ("a/b/c vs x.pyx"): spelled out here
    out["C13"] = sorted(set(out["C17"]) | {("scriptplan/core/working_hours.py", "onShift"), ("scriptplan/core/working_hours.py", "get_daily_hours"),
                                           ("scriptplan/_cython/working_hours_cy.pyx", "check_working_hours_fast"),
                                           ("scriptplan/_cython/scoreboard_cy.pyx", "collect_intervals_fast"),
                                           ("scriptplan/_cython/time_utils_cy.pyx", "project_date_to_idx"),
                                           ("scriptplan/_cython/time_utils_cy.pyx", "project_idx_to_date")})
    return out


def func_ranges(path, name):
    src = open(path).read()
    if path.endswith(".pyx"):
        L = src.split("\n")
        res = []
        for i, l in enumerate(L):
            if re.match(r"\s*(cp?def|def)\s+.*\b%s\s*\(" % re.escape(name), l):
                ind = len(l) - len(l.lstrip())
                j = i + 1
                while j < len(L) and (not L[j].strip() or len(L[j]) - len(L[j].lstrip()) > ind):
                    j += 1
                res.append((i + 1, j))
        return res
    try:
        tree = ast.parse(src)
    except SyntaxError:
        return []
    return [(n.lineno, n.end_lineno) for n in ast.walk(tree)
            if isinstance(n, (ast.FunctionDef, ast.AsyncFunctionDef)) and n.name == name]


def candidates(wt, sites):
    cands = []
    for f, name in sites:
        path = os.path.join(wt, f)
        if not os.path.exists(path):
            continue
        L = open(path).read().split("\n")
        for a, b in func_ranges(path, name):
            indoc = False
            for ln in range(a, b):          # body lines (0-based index ln = line ln+1)
                line = L[ln]
                st = line.strip()
                if st.startswith(('"""', "'''")):
                    if not (st.count('"""') + st.count("'''") >= 2):
                        indoc = not indoc
                    continue
                if indoc or not st or st.startswith("#") or st.startswith(("import ", "from ", "def ", "cdef ", "cpdef ")):
                    continue
                code = line.split("  #")[0]
                for k, (pat, rep) in enumerate(SUBS):
                    for m in re.finditer(pat, code):
                        # not inside a string literal (crude: even number of quotes before the match)
                        pre = code[:m.start()]
                        if pre.count('"') % 2 or pre.count("'") % 2:
                            continue
                        cands.append((f, name, ln, m.start(), m.end(), rep, pat))
    return cands


def sh(cmd, cwd=None, env=None, timeout=None):
    try:
        r = subprocess.run(cmd, cwd=cwd, env=env, stdout=subprocess.PIPE, stderr=subprocess.STDOUT, text=True, timeout=timeout)
        return r.returncode, r.stdout
    except subprocess.TimeoutExpired as e:
        return 124, (e.stdout or "") if isinstance(e.stdout, str) else ""


def run_mutant(job):
    pid, mut, wt, outdir, idx = job
    f, name, ln, a, b, rep, pat = mut
    path = os.path.join(wt, f)
    orig = open(path).read()
    L = orig.split("\n")
    old = L[ln]
    L[ln] = old[:a] + rep + old[b:]
    rec = {"property": pid, "file": f, "function": name, "line": ln + 1, "old": old.strip(), "new": L[ln].strip(), "id": "%s-m%03d" % (pid, idx)}
    try:
        open(path, "w").write("\n".join(L))
        env = dict(os.environ, PYTHONPATH=wt, PYTHONDONTWRITEBYTECODE="1")
        env.pop("SCRIPTPLAN_VERIF", None)
        if f.endswith(".pyx"):
            rc, out = sh([PY, "setup.py", "build_ext", "--inplace", "-j", "3"], cwd=wt, env=env, timeout=600)
            shutil.rmtree(os.path.join(wt, "build"), ignore_errors=True)
            if rc != 0:
                rec["verdict"] = "does-not-compile"
                return rec
        else:
            rc, out = sh([PY, "-m", "py_compile", path], env=env)
            if rc != 0:
                rec["verdict"] = "does-not-compile"
                return rec
        rc, out = sh([PY, "-m", "pytest", "-x", "-q", "-p", "no:cacheprovider", "--timeout=300"], cwd=wt, env=env, timeout=1500)
        if rc != 0:
            rec["verdict"] = "killed-by-tests"
            return rec
        patch = subprocess.run(["git", "diff", "--", "scriptplan", ":!scriptplan/_cython/*.c"], cwd=wt, stdout=subprocess.PIPE, text=True).stdout
        open(os.path.join(outdir, rec["id"] + ".diff"), "w").write(patch)
        evid = tempfile.mkdtemp(prefix="mutevid_")
        try:
            env2 = dict(os.environ, VERIF_REPO=wt, VERIF_EVID=evid)
            rc, out = sh([os.path.join(V, "check"), pid, "--tier", "quick"], cwd=V, env=env2, timeout=3600)
        finally:
            shutil.rmtree(evid, ignore_errors=True)
        viol = [l for l in out.split("\n") if l.startswith("VIOLATION")]
        rec["check_rc"] = rc
        rec["verdict"] = "caught" if (rc == 1 and viol) else ("survived" if rc == 0 else "machinery-%d" % rc)
        if rc not in (0, 1):
            rec["tail"] = out[-600:]
        return rec
    finally:
        open(path, "w").write(orig)
        if f.endswith(".pyx"):
            sh([PY, "setup.py", "build_ext", "--inplace", "-j", "3"], cwd=wt, timeout=600)
            shutil.rmtree(os.path.join(wt, "build"), ignore_errors=True)
            sh(["git", "checkout", "--", "scriptplan/_cython"], cwd=wt)


def main():
    ap = argparse.ArgumentParser()
    ap.add_argument("--per-prop", type=int, default=4)
    ap.add_argument("--jobs", type=int, default=4)
    ap.add_argument("--seed", type=int, default=1)
    ap.add_argument("--props", default="")
    ap.add_argument("--out", default="/tmp/mutsweep")
    a = ap.parse_args()
    os.makedirs(a.out, exist_ok=True)
    rng = random.Random(a.seed)
    anc = anchors()
    props = [p for p in sorted(anc) if not a.props or p in a.props.split(",")]
    base = tempfile.mkdtemp(prefix="mutwt_")
    wts = []
    try:
        for j in range(a.jobs):
            wt = os.path.join(base, "mutwt_%s_%d" % (os.path.basename(base), j))
            subprocess.check_call(["git", "-C", REPO, "worktree", "add", "-q", "--detach", wt, "HEAD"])
            subprocess.check_call([PY, "setup.py", "build_ext", "--inplace", "-j", "3"], cwd=wt, stdout=subprocess.DEVNULL, stderr=subprocess.DEVNULL)
            shutil.rmtree(os.path.join(wt, "build"), ignore_errors=True)
            subprocess.call(["git", "checkout", "--", "scriptplan/_cython"], cwd=wt)
            wts.append(wt)
        jobs = []
        for pid in props:
            c = candidates(wts[0], anc[pid])
            rng.shuffle(c)
            seen = set()
            n = 0
            for m in c:
                key = (m[0], m[2])
                if key in seen:
                    continue
                seen.add(key)
                jobs.append((pid, m, n))
                n += 1
                if n >= a.per_prop:
                    break
            print("%s: %d sites, %d candidate mutants, %d drawn" % (pid, len(anc[pid]), len(c), n), flush=True)
        import queue
        free = queue.Queue()
        for w in wts:
            free.put(w)
        res_path = os.path.join(a.out, "results.jsonl")

        def work(j):
            wt = free.get()
            try:
                r = run_mutant((j[0], j[1], wt, a.out, j[2]))
            except Exception as e:      # noqa
                r = {"property": j[0], "verdict": "error", "error": repr(e)}
            finally:
                free.put(wt)
            with open(res_path, "a") as fh:
                fh.write(json.dumps(r) + "\n")
            print("%s %s %s:%s  %s  ->  %s" % (r.get("id"), r.get("verdict"), r.get("file"), r.get("line"), r.get("old"), r.get("new")), flush=True)
            return r
        with ThreadPoolExecutor(a.jobs) as ex:
            rs = list(ex.map(work, jobs))
        tally = {}
        for r in rs:
            tally[r["verdict"]] = tally.get(r["verdict"], 0) + 1
        print("mutsweep:", tally)
    finally:
        for wt in wts:
            subprocess.call(["git", "-C", REPO, "worktree", "remove", "--force", wt])
        shutil.rmtree(base, ignore_errors=True)
    return 0


if __name__ == "__main__":
    sys.exit(main())
