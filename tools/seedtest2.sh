#!/bin/bash
# usage: tools/seedtest2.sh <seed-dir-name> <prop> [more props...]
# Like seedtest.sh but leaves /repo alone: the seeded patch is applied in a scratch worktree of /repo's HEAD and the
# checks are pointed at it with VERIF_REPO; evidence of these runs goes to a scratch directory (never to /verif/evidence).
set -u
V=$(cd "$(dirname "$0")/.." && pwd)
N=$1; S=$V/seeded/$N; shift
W=$(mktemp -d /tmp/seedwt_XXXX)
WT="$W/wt_$(basename $W)"       # unique basename: git names the worktree after it
cd /repo && git worktree add -q --detach "$WT" HEAD || exit 2
trap 'cd /repo; git worktree remove --force "$WT" 2>/dev/null; rm -rf "$W"' EXIT
cd "$WT"
if ! git apply "$S/patch.diff" 2>/dev/null; then echo "PATCH DOES NOT APPLY: $N"; exit 3; fi
cd $V
for P in "$@"; do
  out=$(VERIF_REPO="$WT" VERIF_EVID="$W/evid" ./check "$P" --tier ${TIER:-quick} 2>&1); rc=$?
  nv=$(echo "$out" | grep -c '^VIOLATION')
  echo "seed=$N check=$P rc=$rc violations=$nv :: $(echo "$out" | grep -m1 -A1 '^VIOLATION' | tail -1 | cut -c1-230)"
  [ $rc -eq 2 ] && echo "$out" | tail -5
done
