#!/bin/bash
# usage: tools/seedtest.sh <seed-dir-name> <prop> [more props...]   -- applies the seeded patch to /repo, runs quick checks, restores /repo
set -u
S=/verif/seeded/$1; shift
cd /repo || exit 2
if ! git diff --quiet; then echo "/repo has uncommitted changes"; exit 2; fi
if ! git apply --check "$S/patch.diff" 2>/dev/null; then echo "PATCH DOES NOT APPLY: $S"; exit 3; fi
git apply "$S/patch.diff"
trap 'cd /repo && git checkout -- . ' EXIT
cd /verif
for P in "$@"; do
  out=$(./check "$P" --tier quick 2>&1); rc=$?
  nv=$(echo "$out" | grep -c '^VIOLATION')
  echo "seed=$(basename $S) check=$P rc=$rc violations=$nv :: $(echo "$out" | grep -m1 -A1 '^VIOLATION' | tail -1 | cut -c1-230)"
done
