----------------------------------- MODULE Session -----------------------------------
(***************************************************************************************)
(* One interpreter, several project texts, every order of public calls (C12).           *)
(*                                                                                     *)
(* The process-wide state that can change a result is the class-level attribute mode:   *)
(* a value written while mode # 0 is not "provided" and inheritance may overwrite it.   *)
(* Project() resets the mode (ResetOnNew); schedule() leaves it at 2; tasks already     *)
(* placed are skipped when schedule() is called again; report generation and the CLI    *)
(* path (which schedules twice) do not touch the schedule.  With ResetOnNew = FALSE the  *)
(* invariant fails (SessionMut.cfg): the model is not vacuous.                          *)
(*                                                                                     *)
(* TLC enumerates every call history up to MaxCalls and prints it; each history is      *)
(* replayed in one real interpreter and compared with fresh-process runs.               *)
(***************************************************************************************)
EXTENDS Integers, Sequences, FiniteSets, TLC
CONSTANTS Projects, Failing, MaxCalls, ResetOnNew     \* Failing \subseteq Projects: texts that are rejected
VARIABLES mode, phase, clean, result, hist
vars == <<mode, phase, clean, result, hist>>

Init == /\ mode = 0 /\ phase = [p \in Projects |-> "none"] /\ clean = [p \in Projects |-> TRUE]
        /\ result = [p \in Projects |-> "none"] /\ hist = <<>>
Log(c) == hist' = Append(hist, c)
NewMode == IF ResetOnNew THEN 0 ELSE mode
\* parse(text, schedule = FALSE): Project() resets the mode, attributes are written, inheritance runs
ParseOnly(p) ==
  /\ Len(hist) < MaxCalls
  /\ IF p \in Failing
     THEN /\ mode' = mode /\ UNCHANGED <<phase, clean, result>> /\ Log(<<"parse_only", p>>)      \* rejected before a Project exists
     ELSE /\ mode' = NewMode /\ phase' = [phase EXCEPT ![p] = "built"]
          /\ clean' = [clean EXCEPT ![p] = (NewMode = 0)] /\ result' = [result EXCEPT ![p] = "none"]
          /\ Log(<<"parse_only", p>>)
\* parse(text): the same followed by schedule()
Parse(p) ==
  /\ Len(hist) < MaxCalls
  /\ IF p \in Failing
     THEN /\ mode' = mode /\ UNCHANGED <<phase, clean, result>> /\ Log(<<"parse", p>>)
     ELSE /\ mode' = 2 /\ phase' = [phase EXCEPT ![p] = "scheduled"]
          /\ clean' = [clean EXCEPT ![p] = (NewMode = 0)]
          /\ result' = [result EXCEPT ![p] = IF NewMode = 0 THEN "solo" ELSE "skewed"]
          /\ Log(<<"parse", p>>)
\* project.schedule(): mode 1 while preparing, 2 while scheduling; placed tasks are skipped on a repeat
Schedule(p) ==
  /\ Len(hist) < MaxCalls /\ phase[p] \in {"built", "scheduled"}
  /\ mode' = 2 /\ phase' = [phase EXCEPT ![p] = "scheduled"]
  /\ result' = [result EXCEPT ![p] = IF phase[p] = "scheduled" THEN @ ELSE IF clean[p] THEN "solo" ELSE "skewed"]
  /\ UNCHANGED clean /\ Log(<<"schedule", p>>)
\* report generation reads the schedule
Report(p) ==
  /\ Len(hist) < MaxCalls /\ phase[p] = "scheduled" /\ UNCHANGED <<mode, phase, clean, result>> /\ Log(<<"report", p>>)
\* the CLI path: a new parser, parse (+schedule), schedule again, generate reports; the project object is private to it
CliRun(p) ==
  /\ Len(hist) < MaxCalls
  /\ mode' = IF p \in Failing THEN mode ELSE 2
  /\ UNCHANGED <<phase, clean, result>> /\ Log(<<"cli", p>>)
Next == \E p \in Projects : ParseOnly(p) \/ Parse(p) \/ Schedule(p) \/ Report(p) \/ CliRun(p)
Spec == Init /\ [][Next]_vars
HistoryIndependent == \A p \in Projects : result[p] \in {"none", "solo"}
Emit == Len(hist) = MaxCalls => PrintT(<<"HISTORY", hist>>)
=======================================================================================
