----------------------------------- MODULE MC_Team ------------------------------------
(* Universe for team allocations (C03 "same instants", C01, C06; D14, D22): two warm-up     *)
(* tasks leave r and q with differently used first slots (a quarter, half or three quarters *)
(* of a slot, or nothing); the team task books r and q together and must start where the     *)
(* busier one becomes free; an optional daily task limit has room for one member more than   *)
(* a whole number of team slots (the team is booked for all its members or for none); a      *)
(* follower on one of the members shares the team's last slot.  Hour slots, one real week;   *)
(* both resources on the default calendar.                                                   *)
EXTENDS MCLib
CONSTANT Slice
Quick == Slice = "quick"
ResQ == [Res1(0, 1) EXCEPT !.name = "q"]
TaskT(i, eff, pr, al, deps, tl) == [Task(i, 0, eff, pr, al, deps, -1) EXCEPT !.limits = DLim(tl)]
Tiny == Slice = "tiny"
Warm == IF Tiny THEN {900, 2700} ELSE IF Quick THEN {0, 900, 2700} ELSE {0, 900, 1800, 2700}
TeamEff == IF Tiny THEN {5400} ELSE IF Quick THEN {3600, 5400} ELSE {1800, 3600, 5400, 9000}
Codes == Warm \X Warm \X TeamEff \X {0, 3} \X {<<>>, <<Dep(1, 0, FALSE)>>, <<Dep(1, 1800, FALSE)>>}
         \X {900, 4500} \X {<<1>>, <<2>>} \X {<<>>, <<Dep(3, 0, FALSE)>>} \X {400, 600}
\* warm-up tasks of zero effort are milestones: they leave the slot untouched
Build(c) == Frame(<<Res1(0, 1), ResQ>>,
                  << TaskT(1, c[1], 900, IF c[1] = 0 THEN <<>> ELSE <<1>>, <<>>, 0),
                     TaskT(2, c[2], 900, IF c[2] = 0 THEN <<>> ELSE <<2>>, <<>>, 0),
                     TaskT(3, c[3], 500, <<1, 2>>, c[5], c[4]),
                     TaskT(4, c[6], c[9], c[7], c[8], 0) >>, 1)
MCUniverse == {Build(c) : c \in Codes}
=======================================================================================
