------------------------------------- MODULE Cli -------------------------------------
(***************************************************************************************)
(* `plan report` as a state machine over an abstract file system (C19), and N of them   *)
(* interleaved at file-operation granularity over one shared temp directory and one     *)
(* shared working directory (C20).  One action per file operation of the implementation:*)
(*   ReadInput  validate the path / read stdin into plan_stdin_*.tjp, hash the input    *)
(*   MkOutDir   mkdtemp plan_output_*                                                   *)
(*   MkAuto     mkstemp plan_auto_*.tjp = input + auto report with a random id          *)
(*   Run        parse + schedule + generate every report of the file into the out dir   *)
(*   Emit       print the auto report of THIS run (report_id := SHA-256 of the input)    *)
(*   Cleanup    remove out dir and temp files, exit 0                                   *)
(*   Fail       every error path: remove whatever exists, message on stderr, exit 1 / 2 *)
(* Failure can strike at every step: bad input at ReadInput (1), a stream or file that   *)
(* is not valid UTF-8 at ReadInput / MkAuto, a parse / model error or a library routine  *)
(* that calls sys.exit at Run, an --output target that exists / cannot be created or a   *)
(* stdout whose reader has gone away at Emit.  Every one of them leaves nothing behind.  *)
(* UniqueNames = FALSE models a shared output name; TLC must then find the interference *)
(* (MC_CliShared.cfg): the invariants are not vacuous.                                  *)
(***************************************************************************************)
EXTENDS Integers, FiniteSets, Sequences, TLC, Json
CONSTANTS Procs,            \* set of process ids
          Sits,             \* set of situations a process may be in (each process picks one)
          UniqueNames,      \* TRUE: mkstemp/mkdtemp/token_hex semantics; FALSE: a shared output name (mutant)
          EmitTerminal      \* TRUE: print terminal states (used with one process: C19 replay)

VARIABLES sit, pc, tmp, cwd, outdir, stdout, stderr, exit, readFrom, written
vars == <<sit, pc, tmp, cwd, outdir, stdout, stderr, exit, readFrom, written>>

\* a temp file is <<kind, owner>>; tmp is the set of entries in $TMPDIR, cwd the set created in the cwd
Name(p, kind) == IF UniqueNames \/ kind # "outdir" THEN <<kind, p>> ELSE <<kind, 0>>
BadInput(p)  == sit[p].input \in {"missing", "directory", "empty", "blank", "unreadable"}      \* "unreadable": a regular non-empty file whose read() fails
ParseFail(p) == sit[p].input \in {"syntax", "model"}
Undecodable(p) == sit[p].input = "undecodable"      \* bytes that are not UTF-8
LibExit(p) == FALSE      \* (was: a report definition the library refuses with sys.exit; since F44 own reports are not generated at all)
\* faults from outside: "sigint" = the user interrupts the run at an arbitrary point; "fsize" = a temporary copy cannot be
\* written completely (disk full / RLIMIT_FSIZE): the file exists by then and has to go like every other
Fault(p) == IF "fault" \in DOMAIN sit[p] THEN sit[p].fault ELSE "none"
\* "fsizeout": the --output file cannot be written completely (disk full / file size limit): no truncated file stays behind
EmitFail(p) == sit[p].out \in {"exists", "baddir", "brokenpipe"} \/ (Fault(p) = "fsizeout" /\ sit[p].out \in {"newfile", "force"})
FromStdin(p) == sit[p].channel \in {"stdin", "dash"}
\* stdin cannot deliver a missing file or a directory: those situations read an empty stream
Reports(p) == {<<"auto", sit[p].format>>}      \* only the command's own report is generated (F44), whatever sit[p].own says

Init == /\ sit \in [Procs -> Sits]
        /\ pc = [p \in Procs |-> "start"] /\ tmp = {} /\ cwd = {} /\ outdir = [n \in {} |-> {}]
        /\ stdout = [p \in Procs |-> "none"] /\ stderr = [p \in Procs |-> FALSE]
        /\ exit = [p \in Procs |-> -1] /\ readFrom = [p \in Procs |-> {}] /\ written = [p \in Procs |-> "none"]

Mine(p) == {f \in tmp : f[2] = p}
Fail(p, code) == /\ tmp' = tmp \ Mine(p)                         \* every except branch cleans up
                 /\ outdir' = [n \in DOMAIN outdir \ {Name(p, "outdir")} |-> outdir[n]]
                 /\ stderr' = [stderr EXCEPT ![p] = TRUE] /\ exit' = [exit EXCEPT ![p] = code]
                 /\ pc' = [pc EXCEPT ![p] = "exited"] /\ UNCHANGED <<sit, cwd, stdout, readFrom, written>>

ReadInput(p) ==
  /\ pc[p] = "start"
  /\ IF BadInput(p) THEN Fail(p, 1)
     ELSE IF Undecodable(p) /\ FromStdin(p) THEN Fail(p, 2)      \* the stream cannot be decoded
     ELSE IF Fault(p) = "fsize" /\ FromStdin(p)
          THEN /\ tmp' = tmp \cup {Name(p, "stdincopy")}         \* mkstemp succeeded, the write will not
               /\ pc' = [pc EXCEPT ![p] = "wfail"] /\ UNCHANGED <<sit, cwd, outdir, stdout, stderr, exit, readFrom, written>>
     ELSE /\ tmp' = IF FromStdin(p) THEN tmp \cup {Name(p, "stdincopy")} ELSE tmp
          /\ pc' = [pc EXCEPT ![p] = "hashed"] /\ UNCHANGED <<sit, cwd, outdir, stdout, stderr, exit, readFrom, written>>
MkOutDir(p) ==
  /\ pc[p] = "hashed"
  /\ tmp' = tmp \cup {Name(p, "outdir")}
  /\ outdir' = IF Name(p, "outdir") \in DOMAIN outdir THEN outdir ELSE (Name(p, "outdir") :> {}) @@ outdir
  /\ pc' = [pc EXCEPT ![p] = "outdir"] /\ UNCHANGED <<sit, cwd, stdout, stderr, exit, readFrom, written>>
MkAuto(p) ==
  /\ pc[p] = "outdir"
  /\ IF Undecodable(p) THEN Fail(p, 2)                           \* the input file cannot be copied as text
     ELSE IF Fault(p) = "fsize"
          THEN /\ tmp' = tmp \cup {Name(p, "autofile")}          \* mkstemp succeeded, the write will not
               /\ pc' = [pc EXCEPT ![p] = "wfail"] /\ UNCHANGED <<sit, cwd, outdir, stdout, stderr, exit, readFrom, written>>
     ELSE /\ tmp' = tmp \cup {Name(p, "autofile")}
          /\ pc' = [pc EXCEPT ![p] = "auto"] /\ UNCHANGED <<sit, cwd, outdir, stdout, stderr, exit, readFrom, written>>
Run(p) ==
  /\ pc[p] = "auto"
  /\ IF ParseFail(p) \/ LibExit(p) THEN Fail(p, 2)
     ELSE IF Fault(p) = "fsizerep"                               \* the report cannot be written completely into the output directory
          THEN /\ Name(p, "outdir") \in DOMAIN outdir
               /\ outdir' = [outdir EXCEPT ![Name(p, "outdir")] = @ \cup {<<"partial", sit[p].format, p>>}]
               /\ pc' = [pc EXCEPT ![p] = "wfail"] /\ UNCHANGED <<sit, tmp, cwd, stdout, stderr, exit, readFrom, written>>
     ELSE /\ Name(p, "outdir") \in DOMAIN outdir
          /\ outdir' = [outdir EXCEPT ![Name(p, "outdir")] = @ \cup {<<r[1], r[2], p>> : r \in Reports(p)}]
          /\ pc' = [pc EXCEPT ![p] = "ran"] /\ UNCHANGED <<sit, tmp, cwd, stdout, stderr, exit, readFrom, written>>
\* the contract: the report printed is the auto report of THIS run, whatever else the file defines
\* with --output the report goes to the named file instead of stdout; an existing file is not overwritten
\* without --force: that is a failure path like any other (clean up, diagnostic, non-zero exit)
Emit(p) ==
  /\ pc[p] = "ran" /\ Name(p, "outdir") \in DOMAIN outdir
  /\ IF EmitFail(p) THEN Fail(p, 2)
     ELSE /\ LET cands == {f \in outdir[Name(p, "outdir")] : f[1] = "auto" /\ f[2] = sit[p].format}
             IN  /\ cands # {}
                 /\ \E f \in cands :
                       /\ readFrom' = [readFrom EXCEPT ![p] = {f[3]}]
                       /\ stdout' = [stdout EXCEPT ![p] = IF sit[p].out \notin {"stdout", "stderrfull"} THEN "none" ELSE IF f[3] = p THEN "auto" ELSE "foreign"]
                       /\ written' = [written EXCEPT ![p] = IF sit[p].out \in {"stdout", "stderrfull"} THEN "none" ELSE IF f[3] = p THEN "auto" ELSE "foreign"]
          /\ pc' = [pc EXCEPT ![p] = "emitted"] /\ UNCHANGED <<sit, tmp, cwd, outdir, stderr, exit>>
Cleanup(p) ==
  /\ pc[p] = "emitted"
  /\ tmp' = (tmp \ Mine(p)) \ {Name(p, "outdir")}
  /\ outdir' = [n \in DOMAIN outdir \ {Name(p, "outdir")} |-> outdir[n]]
  /\ exit' = [exit EXCEPT ![p] = 0] /\ pc' = [pc EXCEPT ![p] = "exited"]
  /\ UNCHANGED <<sit, cwd, stdout, stderr, readFrom, written>>
\* a process whose output directory was removed under it fails with 2
Lost(p) == /\ pc[p] \in {"auto", "ran"} /\ Name(p, "outdir") \notin DOMAIN outdir /\ Fail(p, 2)

\* the half-written copy is removed with everything else
WriteFail(p) == pc[p] = "wfail" /\ Fail(p, 2)
\* Ctrl-C between any two steps (the process is alive, nothing or everything may exist already)
\* ... or a supervisor / a closing terminal ends it (SIGTERM, SIGHUP): the same clean-up is owed
Signals == {"sigint", "sigterm", "sighup"}
Interrupt(p) == /\ Fault(p) \in Signals /\ pc[p] \in {"hashed", "outdir", "auto", "ran"} /\ Fail(p, 130)

Next == \E p \in Procs : ReadInput(p) \/ MkOutDir(p) \/ MkAuto(p) \/ Run(p) \/ Emit(p) \/ Cleanup(p) \/ Lost(p) \/ WriteFail(p) \/ Interrupt(p)
Spec == Init /\ [][Next]_vars /\ WF_vars(Next)

AllDone == \A p \in Procs : pc[p] = "exited"
\* C19.  AllowedExit: 1 for missing / empty input, 2 when report generation fails.  Input that exists but cannot be
\* decoded may be called "unreadable input" (1) or a failed generation (2); the help text documents 3 for an existing
\* --output target while the statement lists only 0 / 1 / 2: both are accepted.
WantExit(p) == IF BadInput(p) THEN 1 ELSE IF ParseFail(p) \/ LibExit(p) \/ Undecodable(p) \/ EmitFail(p) \/ Fault(p) \in {"fsize", "fsizerep"} THEN 2 ELSE 0
\* an own report definition whose file name the library would refuse: the command does not generate it, so it succeeds (F44, F90)
\* diagnostics that cannot be written (stderr on a full device): the statement does not say whether that is a failure of its own;
\* the wanted status or a failure status is accepted -- but nothing may stay behind (NoTrace) and stdout carries the report or nothing
\* an interrupted run: the statement names no status for it (the shell convention is 130, click's is 1); the run may also
\* have got through before the signal arrived
AllowedExit(p) == IF Fault(p) \in Signals THEN {WantExit(p), 1, 2, 129, 130, 143} ELSE      \* (2: the run the signal ended counts as a failed generation)
                  IF sit[p].out = "stderrfull" THEN {WantExit(p), 1, 2} ELSE
                  IF Undecodable(p) THEN {1, 2} ELSE IF ~BadInput(p) /\ ~ParseFail(p) /\ ~LibExit(p) /\ sit[p].out = "exists" THEN {2, 3} ELSE {WantExit(p)}
ExitContract == \A p \in Procs : pc[p] = "exited" =>
   /\ exit[p] = WantExit(p) \/ (Fault(p) \in Signals /\ exit[p] = 130)
   /\ stdout[p] = (IF exit[p] = 0 /\ sit[p].out \in {"stdout", "stderrfull"} THEN "auto" ELSE "none")
   /\ written[p] = (IF exit[p] = 0 /\ sit[p].out \notin {"stdout", "stderrfull"} THEN "auto" ELSE "none")
   /\ (exit[p] # 0 => stderr[p])
\* C20
NoTrace == AllDone => tmp = {} /\ cwd = {} /\ DOMAIN outdir = {}
Isolation == \A p \in Procs : readFrom[p] \subseteq {p}
Terminates == <>AllDone
EmitT == (EmitTerminal /\ AllDone) =>
   PrintT(<<"CLITERM", ToJson([p \in Procs |-> [sit |-> sit[p], exit |-> exit[p], okExits |-> AllowedExit(p), stdout |-> stdout[p], written |-> written[p], stderr |-> stderr[p],
                                                  tmpLeft |-> Cardinality(tmp), cwdNew |-> Cardinality(cwd)]])>>)

(* ------------- file-operation traces of real processes (strace), C20 ------------------------- *)
\* FsOwnership: replaying the merged file-operation log of N real processes (any order that respects each
\* process's own order), every path under the temp dir / cwd that a process touches was created by itself.
=======================================================================================
