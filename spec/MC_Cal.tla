------------------------------------ MODULE MC_Cal ------------------------------------
(* Universe for working time (C02, C08): one resource whose calendar is a day shift, a night *)
(* shift that crosses midnight (D1: the night belongs to the day it starts on), a split day,  *)
(* or weekend work; in UTC, in Asia/Tokyo (+9 h: local days straddle UTC days) or in          *)
(* America/New_York in the week of the switch to daylight saving time (offset -5 h until       *)
(* Sunday 07:00 UTC, -4 h afterwards); optionally a day of leave and a global vacation day;    *)
(* two tasks in a chain, forward or backward with a deadline.  Hour slots; two weeks from    *)
(* Monday 2024-03-04 00:00 UTC.                                                               *)
EXTENDS MCLib
CONSTANT Slice
Quick == Slice = "quick"
Day    == << <<540, 1020>> >>
Night  == << <<1320, 360>> >>
Split  == << <<480, 720>>, <<780, 1020>> >>
HDay   == <<Day, Day, Day, Day, Day, <<>>, <<>>>>
HNight == <<Night, Night, Night, Night, Night, <<>>, <<>>>>
HSplit == <<Split, Split, Split, Split, Split, <<>>, <<>>>>
HWeekend == <<<<>>, <<>>, <<>>, <<>>, Night, Day, << <<0, 600>> >> >>      \* Friday night, Saturday, Sunday until 10:00
Hours == IF Quick THEN {HDay, HNight, HWeekend} ELSE {HDay, HNight, HSplit, HWeekend}
UTC == [name |-> "", tz |-> << <<0, 0>> >>]
Tokyo == [name |-> "Asia/Tokyo", tz |-> << <<0, 540>> >>]
NewYork == [name |-> "America/New_York", tz |-> << <<0, -300>>, <<543600, -240>> >>]
Zones == {UTC, Tokyo, NewYork}
Leaves == {<<>>, << <<86400, 172800>> >>}                 \* Tuesday (UTC day)
\* none | Wednesday | a shutdown Tuesday - Friday with a holiday (Wednesday) declared inside it, in either order
Nested == << <<86400, 432000>>, <<172800, 259200>> >>
NestedR == << <<172800, 259200>>, <<86400, 432000>> >>
Vacs == IF Quick THEN {<<>>, Nested} ELSE {<<>>, << <<172800, 259200>> >>, Nested, NestedR}
ResC(h, z, lv) == [name |-> "r", parent |-> 0, leaf |-> TRUE, effN |-> 1, effD |-> 1, cal |-> "hours", hours |-> h,
                   leaves |-> lv, tz |-> z.tz, tzname |-> z.name, limits |-> <<>>, lmul |-> 1]
Sun12 == 6 * 86400 + 12 * 3600
TaskC(i, eff, deps, pe, fw) == [Task(i, 0, eff, 500, <<1>>, deps, -1) EXCEPT !.pinEnd = pe, !.fwd = fw]
Codes == Hours \X Zones \X Leaves \X Vacs \X {4, 11} \X {3, 16} \X {TRUE, FALSE} \X {0, 3600}
Build(c) == LET fw == c[7] IN
   [Frame(<<ResC(c[1], c[2], c[3])>>,
          <<TaskC(1, c[5] * 3600, <<>>, -1, fw), TaskC(2, c[6] * 3600, <<Dep(1, c[8], FALSE)>>, IF fw THEN -1 ELSE Sun12, fw)>>, 1)
    EXCEPT !.vac = c[4], !.alap = ~fw,
           !.N = 337, !.declN = 337, !.endSec = 1209600, !.declEndSec = 1209600]       \* two weeks: everything fits (no horizon extension)
MCUniverse == {Build(c) : c \in Codes}
=======================================================================================
