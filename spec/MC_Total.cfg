CONSTANT TraceMode = FALSE
CONSTANT Universe <- MCUniverse
SPECIFICATION FairSpec
INVARIANT Inv01
INVARIANT Inv04
INVARIANT Inv06
INVARIANT Inv11
PROPERTY Live11
POSTCONDITION StepBound
CHECK_DEADLOCK FALSE
