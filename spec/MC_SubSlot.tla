---------------------------------- MODULE MC_SubSlot ---------------------------------
(* Universe for C01 / C03 / C06: three tasks whose efforts are quarter-slot multiples  *)
(* (tasks end and start in the middle of slots that the next task then shares), two     *)
(* resources with efficiencies 1, 2 and 1/2, dependencies with gaps of 0 / a quarter /  *)
(* half a slot, priorities.  Hour slots, one real week.                                 *)
EXTENDS MCLib
CONSTANT Slice
Quick == Slice = "quick"
ResE(name, en, ed, lm) == [name |-> name, parent |-> 0, leaf |-> TRUE, effN |-> en, effD |-> ed, cal |-> "default", hours |-> NoHours,
         leaves |-> <<>>, tz |-> << <<0, 0>> >>, limits |-> <<>>, lmul |-> lm]
Tiny == Slice = "tiny"
Effs == IF Tiny THEN {900, 4500} ELSE IF Quick THEN {900, 2700, 4500} ELSE {900, 1800, 2700, 4500, 5400}
Codes == (IF Tiny THEN {<<2, 1>>, <<1, 2>>} ELSE {<<1, 1>>, <<2, 1>>, <<1, 2>>}) \X Effs \X Effs \X Effs
         \X {<<1>>} \X {<<1>>, <<2>>} \X {<<1>>, <<2>>}
         \X {<<>>, <<Dep(1, 0, FALSE)>>, <<Dep(1, 1800, FALSE)>>}
         \X {<<>>, <<Dep(1, 0, FALSE)>>, <<Dep(2, 0, FALSE)>>, <<Dep(2, 900, FALSE)>>}
         \X (IF Tiny THEN {400} ELSE IF Quick THEN {400, 600} ELSE {400, 500, 600})
Build(c) == LET e == c[1] IN
   Frame(<<ResE("r", 1, 1, e[1]), ResE("q", e[1], e[2], 1)>>,
         <<Task(1, 0, c[2], 500, c[5], <<>>, -1), Task(2, 0, c[3], 500, c[6], c[8], -1), Task(3, 0, c[4], c[10], c[7], c[9], -1)>>, e[1])
MCUniverse == {Build(c) : c \in Codes}
=======================================================================================
