--------------------------- MODULE Apalache -----------------------------------
(*
 * This is a standard module for use with the Apalache model checker.
 * The meaning of the operators is explained in the comments.
 * Many of the operators serve as additional annotations of their arguments.
 * As we like to preserve compatibility with TLC and TLAPS, we define the
 * operator bodies by erasure. The actual interpretation of the operators is
 * encoded inside Apalache. For the moment, these operators are mirrored in
 * the class at.forsyte.apalache.tla.lir.oper.ApalacheOper.
 *                                                                          
 * Igor Konnov, Jure Kukovec, Informal Systems 2020-2022
 * Igor Konnov, konnov.phd, 2026
 *)

(**
 * An assignment of an expression e to a state variable x. Typically, one
 * uses the non-primed version of x in the initializing predicate Init and
 * the primed version of x (that is, x') in the transition predicate Next.
 * Although TLA+ does not have a concept of a variable assignment, we find
 * this concept extremely useful for symbolic model checking. In pure TLA+,
 * one would simply write x = e, or x \in {e}.
 *
 * Apalache automatically converts some expressions of the form
 * x = e or x \in {e} into assignments. However, if you like to annotate
 * assignments by hand, you can use this operator.
 *
 * For a further discussion on that matter, see:
 * https://github.com/apalache-mc/apalache/blob/main/docs/src/idiomatic/001assignments.md
 *)
__x := __e == __x = __e

(**
 * A generator of a data structure. Given a positive integer `bound`, and
 * assuming that the type of the operator application is known, we
 * recursively generate a TLA+ data structure as a tree, whose width is
 * bound by the number `bound`.
 *
 * The body of this operator is redefined by Apalache.
 *)
Gen(__size) == {}

(**
 * Non-deterministically pick a value out of the set `S`, if `S` is non-empty.
 * If `S` is empty, return some value of the proper type.  This can be
 * understood as a non-deterministic version of CHOOSE x \in S: TRUE.
 *
 * @type: Set(a) => a;
 *)
Guess(__S) ==
    \* Since this is not supported by TLC,
    \* we fall back to the deterministic version for TLC.
    \* Apalache redefines the operator `Guess` as explained above.
    CHOOSE __x \in __S: TRUE

(**
 * Convert a set of pairs S to a function F. Note that if S contains at least
 * two pairs <<x, y>> and <<u, v>> such that x = u and y /= v,
 * then F is not uniquely defined. We use CHOOSE to resolve this ambiguity.
 * Apalache implements a more efficient encoding of this operator
 * than the default one.
 *
 * @type: Set(<<a, b>>) => (a -> b);
 *)
SetAsFun(__S) ==
    LET __Dom == { __x: <<__x, __y>> \in __S }
        __Rng == { __y: <<__x, __y>> \in __S }
    IN
    [ __x \in __Dom |-> CHOOSE __y \in __Rng: <<__x, __y>> \in __S ]

(**
 * A sequence constructor that avoids using a function constructor.
 * Since Apalache is typed, this operator is more efficient than
 * FunAsSeq([ i \in 1..N |-> F(i) ]). Apalache requires N to be
 * a constant expression.
 *
 * @type: (Int, (Int -> a)) => Seq(a);
 *)
LOCAL INSTANCE Integers
MkSeq(__N, __F(_)) ==
    \* This is the TLC implementation. Apalache does it differently.
    \* If __F is not defined on i \in 1..__N, TLC fails.
    \* Apalache evaluates symbolically. This is why definitions
    \* like `FunAsSeq` work.
    [ __i \in (1..__N) |-> __F(__i) ]

\* required by our default definition of FoldSeq and FunAsSeq
LOCAL INSTANCE Sequences

(**
 * As TLA+ is untyped, one can use function- and sequence-specific operators
 * interchangeably. However, to maintain correctness w.r.t. our type-system,
 * an explicit cast is needed when using functions as sequences.
 * FunAsSeq reinterprets a function over integers as a sequence.
 *
 * The parameters have the following meaning:
 *
 *  - fn is the function from 1..len that should be interpreted as a sequence.
 *  - len is the length of the sequence, len = Cardinality(DOMAIN fn),
 *    len may be a variable, a computable expression, etc.
 *  - capacity is a static upper bound on the length, that is, len <= capacity.
 *
 * @type: ((Int -> a), Int, Int) => Seq(a);
 *)
FunAsSeq(__fn, __len, __capacity) ==
    LET __FunAsSeq_elem_ctor(__i) == __fn[__i] IN
    SubSeq(MkSeq(__capacity, __FunAsSeq_elem_ctor), 1, __len)

(**
 * Annotating an expression \E x \in S: P as Skolemizable. That is, it can
 * be replaced with an expression c \in S /\ P(c) for a fresh constant c.
 * Not every exisential can be replaced with a constant, this should be done
 * with care. Apalache detects Skolemizable expressions by static analysis.
 *)
Skolem(__e) == __e

(**
 * A hint to the model checker to expand a set S, instead of dealing
 * with it symbolically. Apalache finds out which sets have to be expanded
 * by static analysis.
 *)
Expand(__S) == __S

(**
 * A hint to the model checker to replace its argument Cardinality(S) >= k
 * with a series of existential quantifiers for a constant k.
 * Similar to Skolem, this has to be done carefully. Apalache automatically
 * places this hint by static analysis.
 *)
ConstCardinality(__cardExpr) == __cardExpr

(**
 * The folding operator, used to implement computation over a set.
 * Apalache implements a more efficient encoding than the one below.
 * (from the community modules).
 *
 * @type: ((a, b) => a, a, Set(b)) => a;
 *)
RECURSIVE ApaFoldSet(_, _, _)
ApaFoldSet(__Op(_,_), __v, __S) ==
    IF __S = {}
    THEN __v
    ELSE LET __w == CHOOSE __x \in __S: TRUE IN
         LET __T == __S \ {__w} IN
         ApaFoldSet(__Op, __Op(__v,__w), __T)

(**
 * The folding operator, used to implement computation over a sequence.
 * Apalache implements a more efficient encoding than the one below.
 * (from the community modules).
 *
 * @type: ((a, b) => a, a, Seq(b)) => a;
 *)
RECURSIVE ApaFoldSeqLeft(_, _, _)
ApaFoldSeqLeft(__Op(_,_), __v, __seq) ==
    IF __seq = <<>>
    THEN __v
    ELSE ApaFoldSeqLeft(__Op, __Op(__v, Head(__seq)), Tail(__seq))

(**
 * The repetition operator, used to consecutively apply an operator, starting from
 * an initial value.
 *
 * @type: ((a, Int) => a, Int, a) => a;
 *)
RECURSIVE Repeat(_,_,_)
Repeat(__F(_,_), __N, __x) ==
        \* This is the TLC implementation. Apalache does it differently.
        IF __N <= 0
        THEN __x
        ELSE __F(Repeat(__F, __N - 1, __x), __N)

===============================================================================
