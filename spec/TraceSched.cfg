CONSTANT TraceMode = TRUE
SPECIFICATION Spec
CHECK_DEADLOCK FALSE
