CONSTANTS
  Projects = {"A", "B", "C", "X"}
  Failing = {"X"}
  MaxCalls = 4
  ResetOnNew = FALSE
SPECIFICATION Spec
INVARIANT HistoryIndependent
INVARIANT Emit
CHECK_DEADLOCK FALSE
