------------------------------------ MODULE MC_Alap -----------------------------------
(* Universe for backward (ALAP) scheduling, C06 / C08 / C04: project-level ALAP, three   *)
(* tasks, deadlines (explicit end) on exactly the tasks without successors, dependencies  *)
(* with gaps, two resources (default calendar; afternoons), efforts of whole and          *)
(* fractional slots, two priority levels.  Hour slots, one real week.                    *)
EXTENDS MCLib
CONSTANT Slice
Quick == Slice = "quick"
Fri17 == 4 * 86400 + 17 * 3600
Wed12 == 2 * 86400 + 12 * 3600
Thu15 == 3 * 86400 + 15 * 3600
Ends == IF Quick \/ Slice = "tiny" THEN {Fri17, Wed12} ELSE {Fri17, Wed12, Thu15}
Tiny == Slice = "tiny"
Effs == IF Tiny THEN {5400} ELSE IF Quick THEN {3600, 5400} ELSE {3600, 5400, 7200, 9000}
D2 == {<<>>, <<Dep(1, 0, FALSE)>>, <<Dep(1, 3600, FALSE)>>}
D3 == {<<>>, <<Dep(1, 0, FALSE)>>, <<Dep(2, 0, FALSE)>>, <<Dep(2, 7200, FALSE)>>, <<Dep(1, 0, FALSE), Dep(2, 3600, FALSE)>>}
HasSucc(i, d2, d3) == (\E k \in 1..Len(d2) : d2[k].p = i) \/ (\E k \in 1..Len(d3) : d3[k].p = i)
TaskE(i, eff, pr, al, deps, pe) == [Task(i, 0, eff, pr, al, deps, -1) EXCEPT !.pinEnd = pe]
Codes == Effs \X Effs \X Effs \X {<<1>>, <<2>>} \X {<<1>>} \X {<<1>>, <<2>>} \X D2 \X D3 \X Ends \X Ends \X {500, 700}
Build(c) == LET d2 == c[7]  d3 == c[8] IN
   [Frame(<<Res1(0, 1), Res2(1, 1)>>,
         <<TaskE(1, c[1], 500, c[4], <<>>, IF HasSucc(1, d2, d3) THEN -1 ELSE c[9]),
           TaskE(2, c[2], c[11], c[5], d2, IF HasSucc(2, d2, d3) THEN -1 ELSE c[10]),
           TaskE(3, c[3], 500, c[6], d3, c[9])>>, 1) EXCEPT !.alap = TRUE]
MCUniverse == {Build(c) : c \in Codes}
=======================================================================================
