CONSTANTS
  Resolutions = {60, 300, 900, 1800, 3600}
  MaxSpan = 7300
  MaxLen = 7
  TraceMode = TRUE
SPECIFICATION Spec
CHECK_DEADLOCK FALSE
