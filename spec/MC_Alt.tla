------------------------------------ MODULE MC_Alt ------------------------------------
(* Universe for the one-time choice among the candidates of an allocation (C03, D20, D21):  *)
(* a blocker occupies resource r for 3..9 slots; the task under test names r (or a group,    *)
(* or a team) as primary and lists of alternatives out of q (afternoons only), s (on leave  *)
(* on Monday) and the group g in every order; a third task competes for an alternative.      *)
(* Hour slots, one real week.                                                               *)
EXTENDS MCLib
CONSTANT Slice
Quick == Slice = "quick"
ResS == [Res1(0, 1) EXCEPT !.name = "s", !.leaves = << <<0, 86400>> >>]
Grp  == [Res1(0, 1) EXCEPT !.name = "g", !.leaf = FALSE]
Mem  == [Res1(0, 1) EXCEPT !.name = "g.m", !.parent = 4]
\* resources: 1 = r, 2 = q, 3 = s, 4 = g (group), 5 = g.m
TaskA(i, eff, pr, al, alt, deps) == [Task(i, 0, eff, pr, al, deps, -1) EXCEPT !.alt = alt]
Prims == IF Quick THEN {<<1>>} ELSE {<<1>>, <<4>>, <<1, 3>>}      \* an allocation always names a primary
Alts  == IF Quick THEN {<<2>>, <<3>>, <<2, 3>>, <<3, 2>>} ELSE {<<2>>, <<3>>, <<2, 3>>, <<3, 2>>, <<4>>, <<4, 2>>, <<2, 5>>, <<3, 2, 5>>}
Codes == {1, 2, 3} \X Prims \X Alts \X {1, 2, 4} \X {<<2>>, <<3>>} \X {1, 2} \X {400, 700}
         \X {<<>>, <<Dep(1, 0, FALSE)>>}
Build(c) == Frame(<<Res1(0, 1), Res2(1, 1), ResS, Grp, Mem>>,
                  <<TaskA(1, c[1] * 3600 * 3, 800, <<1>>, <<>>, <<>>),
                    TaskA(2, c[4] * 3600, 500, c[2], c[3], c[8]),
                    TaskA(3, c[6] * 3600, c[7], c[5], <<>>, <<>>)>>, 1)
MCUniverse == {Build(c) : c \in Codes}
=======================================================================================
