----------------------------------- MODULE MC_Limits ----------------------------------
(* Universe for C05: daily and weekly limits on a resource, on a resource group (both    *)
(* members together) and on a task; three tasks competing for the limited resources;     *)
(* efforts large enough that the limits bite for several days.  Hour slots, two weeks.   *)
EXTENDS MCLib
CONSTANT Slice
Quick == Slice = "quick"
LimOf(kind, h) == IF h = 0 THEN <<>> ELSE << [kind |-> kind, val |-> h, valSec |-> h * 3600, res |-> 0, periods |-> 0] >>
Grp(h) == [name |-> "g", parent |-> 0, leaf |-> FALSE, effN |-> 1, effD |-> 1, cal |-> "default", hours |-> NoHours,
           leaves |-> <<>>, tz |-> << <<0, 0>> >>, limits |-> LimOf("d", h), lmul |-> 1]
Mem(name, kind, h) == [name |-> name, parent |-> 1, leaf |-> TRUE, effN |-> 1, effD |-> 1, cal |-> "default", hours |-> NoHours,
           leaves |-> <<>>, tz |-> << <<0, 0>> >>, limits |-> LimOf(kind, h), lmul |-> 1]
TaskL(i, eff, pr, al, deps, tl) == [Task(i, 0, eff, pr, al, deps, -1) EXCEPT !.limits = LimOf("d", tl)]
Frame2(res, tasks) == [Frame(res, tasks, 1) EXCEPT !.N = 337, !.declN = 337, !.endSec = 1209600, !.declEndSec = 1209600]
Effs == IF Slice = "tiny" THEN {18000} ELSE IF Quick THEN {7200, 18000} ELSE {7200, 18000, 32400}
Codes == {0, 4} \X {<<"d", 0>>, <<"d", 2>>, <<"d", 3>>, <<"w", 5>>} \X {<<"d", 0>>, <<"d", 3>>}
         \X Effs \X Effs \X Effs \X {<<2>>, <<3>>} \X {<<2>>, <<3>>} \X {<<2>>}
         \X {<<>>, <<Dep(1, 0, FALSE)>>} \X {0, 1} \X {500, 700}
\* resources: 1 = group g, 2 = g.r, 3 = g.q
Build(c) == Frame2(<<Grp(c[1]), Mem("g.r", c[2][1], c[2][2]), Mem("g.q", c[3][1], c[3][2])>>,
                   <<TaskL(1, c[4], 500, c[7], <<>>, 0), TaskL(2, c[5], c[12], c[8], c[10], 0), TaskL(3, c[6], 500, c[9], <<>>, c[11])>>)
MCUniverse == {Build(c) : c \in Codes}
=======================================================================================
