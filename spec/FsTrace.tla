----------------------------------- MODULE FsTrace -----------------------------------
(***************************************************************************************)
(* File-operation logs of real concurrent `plan report` processes (strace -e trace=file),*)
(* checked against the Cli state machine (C20).  IOEnv.FS_FILE holds one JSON object per *)
(* experiment:  {id, procs: [ [ {op, kind, path} ... ] ... ]}                             *)
(*   op   : "create" | "mkdir" | "read" | "unlink" | "rmdir"                              *)
(*   kind : "stdin" (plan_stdin_X.tjp) | "outdir" (plan_output_X) | "auto" (plan_auto_X.tjp)  *)
(*          | "report" (a file inside an output directory) | "other" (anything else new   *)
(*          below the temp dir, e.g. tempfile's writability probe) | "cwd" (anything new   *)
(*          below the working directory)                                                 *)
(*   path : integer naming the path (same integer = same path across processes)           *)
(* Only paths below the temp directory and the working directory that did not exist       *)
(* before the experiment are logged.  No cross-process ordering is assumed.               *)
(***************************************************************************************)
EXTENDS Integers, Sequences, FiniteSets, TLC, Json, IOUtils
Exps == ndJsonDeserialize(IOEnv.FS_FILE)

Evs(x, p) == x.procs[p]
NP(x) == Len(x.procs)
Creates(x, p) == {Evs(x, p)[i].path : i \in {j \in 1..Len(Evs(x, p)) : Evs(x, p)[j].op \in {"create", "mkdir"}}}
Removes(x, p) == {Evs(x, p)[i].path : i \in {j \in 1..Len(Evs(x, p)) : Evs(x, p)[j].op \in {"unlink", "rmdir"}}}
Touches(x, p) == {Evs(x, p)[i].path : i \in 1..Len(Evs(x, p))}
\* Isolation: whatever a process touches below tmp / cwd it has created itself
Foreign(x) == {<<p, q, n>> \in (1..NP(x)) \X (1..NP(x)) \X UNION {Touches(x, r) : r \in 1..NP(x)} :
                  p # q /\ n \in Touches(x, p) /\ n \in Creates(x, q)}
\* NoTrace: everything a process creates it removes again; nothing is ever created below the working directory
Leftover(x) == {<<p, n>> \in (1..NP(x)) \X UNION {Creates(x, r) : r \in 1..NP(x)} : n \in Creates(x, p) /\ n \notin Removes(x, p)}
Strange(x) == {<<p, i>> \in (1..NP(x)) \X (1..300) : i <= Len(Evs(x, p)) /\ Evs(x, p)[i].kind = "cwd" /\ Evs(x, p)[i].op \in {"create", "mkdir"}}
\* the sequence of creations of one process follows the Cli state machine:
\*   [stdin copy]  outdir  auto file  reports*      (reads and removals may come in between / afterwards)
RECURSIVE Walk(_, _, _)
Walk(es, i, pc) ==
  IF i > Len(es) THEN pc
  ELSE LET e == es[i] IN
       IF e.op \notin {"create", "mkdir"} THEN Walk(es, i + 1, pc)
       ELSE IF e.kind = "stdin" /\ pc = "start" THEN Walk(es, i + 1, "hashed")
       ELSE IF e.kind = "outdir" /\ pc \in {"start", "hashed"} THEN Walk(es, i + 1, "outdir")
       ELSE IF e.kind = "auto" /\ pc = "outdir" THEN Walk(es, i + 1, "auto")
       ELSE IF e.kind = "report" /\ pc \in {"auto", "ran"} THEN Walk(es, i + 1, "ran")
       ELSE IF e.kind = "other" THEN Walk(es, i + 1, pc)
       ELSE "bad"
OrderBad(x) == {p \in 1..NP(x) : Walk(Evs(x, p), 1, "start") = "bad"}

VARIABLES k, done
Init == k \in 1..Len(Exps) /\ done = FALSE
Check == /\ ~done
         /\ PrintT(<<"FSTRACE", Exps[k].id, Foreign(Exps[k]), Leftover(Exps[k]), Strange(Exps[k]), OrderBad(Exps[k])>>)
         /\ done' = TRUE /\ UNCHANGED k
Spec == Init /\ [][Check]_<<k, done>>
=======================================================================================
