---------------------------- MODULE MC_SlotLedgerU ----------------------------
(* Apalache instance: 6 tasks, ANY positive capacity (constrained by CInit). *)
EXTENDS Integers
CONSTANT
  \* @type: Int;
  Cap
VARIABLES
  \* @type: Int;
  used,
  \* @type: Int -> Int;
  part,
  \* @type: Int;
  lead,
  \* @type: Set(Int);
  open
\* @type: Set(Int);
TasksC == {1, 2, 3, 4, 5, 6}
INSTANCE SlotLedger WITH Tasks <- TasksC
CInit == Cap \in Int /\ Cap > 0
==============================================================================
