------------------------------------ MODULE Sched ------------------------------------
(***************************************************************************************)
(* The scheduler as a state machine: the reference semantics of scriptplan's list      *)
(* scheduler, executed by TLC over a universe of projects.                             *)
(*                                                                                     *)
(*   Init     one project of the Universe; pinned milestones are placed (pre-pass)     *)
(*   Pick     first ready task in (-priority, declaration) order becomes current       *)
(*   Work     one slot of work of the current task: every selected member books the    *)
(*            team's common free part of the first bookable slot, effort is credited,   *)
(*            and if the effort is reached the last booking is cut to what is needed    *)
(*   RunAway  no bookable slot left inside the horizon                                  *)
(*   Milestone zero-effort leaf at its dependency bound / deadline                      *)
(*   RollUp   container whose children are all scheduled                                *)
(*   Terminate nothing ready any more                                                   *)
(*                                                                                     *)
(* All computations are the operators of SchedCore, which the trace specification uses  *)
(* as well (single source of truth).                                                    *)
(***************************************************************************************)
EXTENDS SchedCore
CONSTANT Universe            \* set of project records (same shape as the JSON of traces)
VARIABLES pc, ld           \* control state; task that finished in the last step (0 if none)
vars == <<proj, used, usage, ts, lim, lsec, cur, pc, ld>>

RoundDiv(a, b) == (2 * a + b) \div (2 * b)
PinnedMs(t) == T(t).leaf /\ T(t).effort = 0 /\ (T(t).pin >= 0 \/ T(t).pinEnd >= 0)
ModeOf(t) == IF T(t).leaf THEN ExpFwd(t) ELSE BaseFwd(t)      \* incl. the pull-back of the predecessors of backward anchors (SchedCore)

Init ==
  /\ proj \in Universe
  /\ used = <<>> /\ usage = <<>> /\ lim = <<>> /\ lsec = <<>> /\ cur = 0 /\ pc = "run" /\ ld = 0
  /\ ts = [t \in 1..NT |->
             LET ms == PinnedMs(t)
                 d == IF T(t).pin >= 0 THEN T(t).pin ELSE T(t).pinEnd
             IN [st |-> IF ms THEN "done" ELSE "todo", sched |-> ms, fwd |-> ModeOf(t), cur |-> 0, bslot |-> 0, off |-> 0,
                 done |-> 0, last |-> 0, base |-> 0, gslot |-> -1, gok |-> TRUE, gbl |-> 0,
                 start |-> IF ms THEN d ELSE -1, end |-> IF ms THEN d ELSE -1, dl |-> -1, fslot |-> -1, sum |-> <<>>,
                 gsec |-> -1, sel |-> T(t).alloc, lo |-> -1, hi |-> -1, pb |-> {}, lk |-> {}, began |-> FALSE]]

\* containers whose children are all scheduled but which are not yet rolled up
Pending == {c \in 1..NT : ~T(c).leaf /\ Kids(c) # {} /\ ~ts[c].sched /\ \A k \in Kids(c) : ts[k].sched}

Pick(t) ==
  /\ pc = "run" /\ cur = 0 /\ Pending = {} /\ FirstReady(t) /\ T(t).effort > 0 /\ Len(T(t).alloc) + Len(T(t).alt) > 0
  /\ LET b == IF Fwd(t) THEN BoundF(t) ELSE Deadline(t)
         c == IF Fwd(t) THEN b \div G ELSE CursorB(t, b)
     IN ts' = [ts EXCEPT ![t].st = "walk", ![t].cur = c, ![t].bslot = IF Fwd(t) THEN b \div G ELSE -1,
                         ![t].off = IF Fwd(t) THEN b % G ELSE 0, ![t].dl = b,
                         ![t].sel = ExpSel(t, c)]         \* the one-time choice among the candidates (Select)
  /\ cur' = t /\ ld' = 0 /\ UNCHANGED <<proj, used, usage, lim, lsec, pc>>

RECURSIVE FirstFromF(_, _), FirstFromB(_, _)
FirstFromF(t, s) == IF s >= P.N THEN -1 ELSE IF BookableC(t, s) THEN s ELSE FirstFromF(t, s + 1)
FirstFromB(t, s) == IF s < 0 THEN -1 ELSE IF BookableC(t, s) THEN s ELSE FirstFromB(t, s - 1)
FirstFrom(t) == IF Fwd(t) THEN FirstFromF(t, ts[t].cur) ELSE FirstFromB(t, ts[t].cur)

\* one slot of work: book every member, credit once, finish if the effort is reached
Work(t) ==
  /\ pc = "run" /\ cur = t /\ ts[t].st = "walk" /\ ~BoundOutside(t) /\ FirstFrom(t) >= 0
  /\ LET s == FirstFrom(t)
         M == SeqSet(Members(t))
         r1 == Members(t)[1]
         bl == TeamBaseL(t, s)
         baseOf(r) == BaseOf(r, bl)
         takeOf(r) == Cap(r) - baseOf(r)
         sumOf(r) == IF r \in DOMAIN ts[t].sum THEN ts[t].sum[r] ELSE 0
         fin == sumOf(r1) + takeOf(r1) >= Need(t, r1)
         keepOf(r) == IF fin THEN Min2(takeOf(r), Need(t, r) - sumOf(r)) ELSE takeOf(r)
         keysOf(r) == LimKeys(t, r, s)
         allKeys == UNION {keysOf(r) : r \in M}
         baseOff == IF ts[t].done = 0 /\ s = ts[t].bslot THEN ts[t].off ELSE 0
         startF == IF ts[t].done = 0 THEN s * G + baseOff ELSE ts[t].start
         endT == s * Cap(r1) + baseOf(r1) + keepOf(r1)
         startTB == (s + 1) * Cap(r1) - (baseOf(r1) + keepOf(r1))
         fs == IF ts[t].fslot < 0 THEN s ELSE ts[t].fslot
     IN /\ used' = [k \in {<<r, s>> : r \in M} |-> baseOf(k[1]) + keepOf(k[1])] @@ used
        /\ usage' = [k \in {<<r, s>> : r \in M} |-> Append(Usage(k[1], s), <<t, keepOf(k[1])>>)] @@ usage
        /\ lim' = [x \in allKeys |-> Lim(x) + Cardinality({r \in M : x \in keysOf(r)})] @@ lim
        /\ lsec' = [x \in allKeys |-> LSec(x) + SumU([i \in 1..Len(Members(t)) |->
                        <<0, IF x \in keysOf(Members(t)[i]) THEN keepOf(Members(t)[i]) * R(Members(t)[i]).lmul ELSE 0>>])] @@ lsec
        /\ ts' = [ts EXCEPT ![t].done = @ + takeOf(r1), ![t].last = takeOf(r1), ![t].base = baseOf(r1),
                            ![t].cur = IF Fwd(t) THEN s + 1 ELSE s - 1,
                            ![t].fslot = fs,
                            ![t].lo = IF @ < 0 \/ s < @ THEN s ELSE @, ![t].hi = IF s > @ THEN s ELSE @,
                            ![t].sum = [r \in M |-> sumOf(r) + keepOf(r)] @@ @,
                            ![t].start = IF Fwd(t) THEN startF ELSE IF fin THEN RoundDiv(startTB, R(r1).effN) ELSE @,
                            ![t].end = IF ~fin THEN @ ELSE IF Fwd(t) THEN RoundDiv(endT, R(r1).effN) ELSE (fs + 1) * G,
                            ![t].st = IF fin THEN "done" ELSE @, ![t].sched = fin]
        /\ cur' = (IF fin THEN 0 ELSE t)
        /\ ld' = (IF fin THEN t ELSE 0)
  /\ UNCHANGED <<proj, pc>>

RunAway(t) ==
  /\ pc = "run" /\ cur = t /\ ts[t].st = "walk" /\ (BoundOutside(t) \/ FirstFrom(t) < 0)
  /\ ts' = [ts EXCEPT ![t].st = "failed"] /\ cur' = 0 /\ ld' = 0 /\ UNCHANGED <<proj, used, usage, lim, lsec, pc>>

\* zero-effort leaf without own dates: at its dependency bound (forward) / deadline (backward)
Milestone(t) ==
  /\ pc = "run" /\ cur = 0 /\ Pending = {} /\ FirstReady(t) /\ T(t).effort = 0
  /\ LET b == IF Fwd(t) THEN BoundF(t) ELSE Deadline(t)
         outside == b < 0 \/ (IF Fwd(t) THEN b \div G > P.N - 1 ELSE b \div G - 1 > P.N - 1)
     IN IF ~outside
        THEN ts' = [ts EXCEPT ![t].st = "done", ![t].sched = TRUE, ![t].start = b, ![t].end = b, ![t].dl = b]
        ELSE ts' = [ts EXCEPT ![t].st = "failed", ![t].dl = b]          \* dependency bound beyond the horizon
  /\ ld' = 0 /\ UNCHANGED <<proj, used, usage, lim, lsec, cur, pc>>

\* an effort task without resources can never be placed
NoAlloc(t) ==
  /\ pc = "run" /\ cur = 0 /\ Pending = {} /\ FirstReady(t) /\ T(t).effort > 0 /\ Len(T(t).alloc) + Len(T(t).alt) = 0
  /\ ts' = [ts EXCEPT ![t].st = "failed"] /\ ld' = 0 /\ UNCHANGED <<proj, used, usage, lim, lsec, cur, pc>>

RollUp(c) ==
  /\ pc = "run" /\ cur = 0 /\ c \in Pending
  /\ ts' = [ts EXCEPT ![c].sched = TRUE, ![c].st = "done",
                      ![c].start = MinOf({ts[k].start : k \in Kids(c)}), ![c].end = MaxOf({ts[k].end : k \in Kids(c)})]
  /\ ld' = 0 /\ UNCHANGED <<proj, used, usage, lim, lsec, cur, pc>>

Terminate ==
  /\ pc = "run" /\ cur = 0 /\ Pending = {} /\ \A t \in Leafs : ~Ready(t)
  /\ pc' = "end" /\ ld' = 0 /\ UNCHANGED <<proj, used, usage, ts, lim, lsec, cur>>

Next == \/ \E t \in 1..NT : Pick(t) \/ Work(t) \/ RunAway(t) \/ Milestone(t) \/ NoAlloc(t) \/ RollUp(t)
        \/ Terminate
Spec == Init /\ [][Next]_vars
FairSpec == Spec /\ WF_vars(Next)

(* ------------------------------- properties as invariants ------------------------------- *)
SchedLeafs == {t \in Leafs : ts[t].sched}
Inv01 == \A k \in DOMAIN used : P01At(used, usage, k)                                  \* C01
Inv02 == \A k \in DOMAIN usage : usage[k] # <<>> => OnShift(k[1], k[2])                 \* C02 (aligned universes)
Inv03 == \A t \in SchedLeafs : (T(t).effort > 0) =>                                    \* C03
            \A r \in SeqSet(Members(t)) : r \in DOMAIN ts[t].sum /\ ts[t].sum[r] = Need(t, r)
Inv03b == \A t \in SchedLeafs : T(t).effort > 0 => OneCandidate(t, SeqSet(Members(t)))        \* C03: exactly one of the candidates
Inv04 == \A t \in SchedLeafs : P04Of(t, ts[t].start, ts[t].end)                        \* C04
Inv05 == \A k \in DOMAIN lsec : P05At(lsec, k)                                         \* C05
Inv06 == \A t \in SchedLeafs : /\ P06Of(t, ts[t].start, ts[t].end, T(t).effort)        \* C06
                               /\ (ts[t].lo >= 0 => P06Tight(t, ts[t].start, ts[t].end, ts[t].lo, ts[t].hi))
Inv10 == \A c \in 1..NT : (~T(c).leaf /\ ts[c].sched) =>                               \* C10
            /\ \A k \in Kids(c) : ts[k].sched
            /\ ts[c].start = MinOf({ts[k].start : k \in Kids(c)}) /\ ts[c].end = MaxOf({ts[k].end : k \in Kids(c)})
Inv10b == \A k \in DOMAIN usage : R(k[1]).leaf /\ \A i \in 1..Len(usage[k]) : T(usage[k][i][1]).leaf
\* C08: a finished forward task on a single unlimited resource left no free tick between its bound and its last slot
\* (checked in the state right after it finished: nobody else has moved yet)
Inv08 == (ld # 0 /\ Len(Members(ld)) = 1) =>
            IF Fwd(ld) THEN P08F(ld, Members(ld)[1], ts[ld].hi) ELSE P08B(ld, Members(ld)[1], ts[ld].lo)
\* C11: totality -- in the terminal state every leaf is scheduled inside the horizon or failed / never ready
\* (a milestone the user pinned outside the project window is reported where the user put it)
Inv11 == pc = "end" => \A t \in Leafs : IF ts[t].sched THEN ts[t].start <= ts[t].end /\ (PinnedMs(t) \/ (0 <= ts[t].start /\ ts[t].end <= P.N * G))
                                                         ELSE ts[t].st \in {"failed", "todo"}
Terminated == pc = "end"
Live11 == <>Terminated

\* emit terminal states for replay into the implementation
Emit == pc = "end" => PrintT(<<"TERMINAL", ToJson([project |-> proj,
                                 final |-> [t \in 1..NT |-> [sched |-> ts[t].sched, start |-> ts[t].start, end |-> ts[t].end]]])>>)
=======================================================================================
