-------------------------------------- MODULE Attr --------------------------------------
(***************************************************************************************)
(* How a scenario-specific attribute of a task is resolved (C16): the value a task has   *)
(* in a scenario is                                                                      *)
(*   1. the one written for that scenario on the task itself,                            *)
(*   2. else the one written on the task for the nearest enclosing scenario (a line       *)
(*      without a prefix is written for the top scenario),                               *)
(*   3. else what the enclosing container has in THAT scenario (effort and allocation     *)
(*      written on a container are inherited by the tasks below, D26),                   *)
(*   4. else nothing.                                                                    *)
(* Own lines of any scenario level win over anything inherited through the task tree     *)
(* (D17), and the order of the lines does not matter.  TLC enumerates every set of at     *)
(* most MaxDecls lines over a fixed task tree and scenario tree and prints the resolved   *)
(* matrix; the harness writes each set as a project (lines in two different orders) and   *)
(* compares what the real model builder resolves (spec -> code).                         *)
(***************************************************************************************)
EXTENDS Integers, Sequences, FiniteSets, FiniteSetsExt, TLC, Json
CONSTANT MaxDecls

Nodes   == 1..4                 \* 1 = container c, 2 = container d in c, 3 = leaf x in d, 4 = leaf y in c
Parent  == <<0, 1, 2, 1>>
Scens   == 0..3                 \* 0 = plan, 1 = s1 in plan, 2 = s2 in s1, 3 = s3 in plan
SParent == <<-1, 0, 1, 0>>      \* SParent[s + 1]
Where   == {-1} \cup Scens      \* -1: a line without a scenario prefix
Vals    == {2, 4, 6}            \* hours
Keys    == Nodes \X Where

VARIABLES decls, done
\* a task does not carry both an unprefixed line and one for the top scenario (they say the same thing twice)
Sane(K) == \A n \in Nodes : ~(<<n, -1>> \in K /\ <<n, 0>> \in K)
Init == /\ decls \in UNION {[K -> Vals] : K \in {S \in UNION {kSubset(k, Keys) : k \in 0..MaxDecls} : Sane(S)}}
        /\ done = FALSE

Decl(n, w) == IF <<n, w>> \in DOMAIN decls THEN decls[<<n, w>>] ELSE 0
RECURSIVE OwnSc(_, _), Eff(_, _)
OwnSc(n, s) == IF Decl(n, s) # 0 THEN Decl(n, s)
               ELSE IF s = 0 THEN Decl(n, -1)
               ELSE OwnSc(n, SParent[s + 1])
Eff(n, s) == IF OwnSc(n, s) # 0 THEN OwnSc(n, s)
             ELSE IF Parent[n] = 0 THEN 0 ELSE Eff(Parent[n], s)

\* (EffW: the same resolution over another declaration set)
RECURSIVE OwnScW(_, _, _), EffW(_, _, _)
OwnScW(D, n, s) == LET d(w) == IF <<n, w>> \in DOMAIN D THEN D[<<n, w>>] ELSE 0
                   IN  IF d(s) # 0 THEN d(s) ELSE IF s = 0 THEN d(-1) ELSE OwnScW(D, n, SParent[s + 1])
EffW(D, n, s) == IF OwnScW(D, n, s) # 0 THEN OwnScW(D, n, s) ELSE IF Parent[n] = 0 THEN 0 ELSE EffW(D, Parent[n], s)

\* C16 on the resolution itself: a line for scenario s changes s and the scenarios below it, nothing else
Below(s, a) == s = a \/ (s # 0 /\ SParent[s + 1] # -1 /\ (SParent[s + 1] = a \/ (SParent[s + 1] # 0 /\ SParent[SParent[s + 1] + 1] = a)))
OnlyThatScenario ==
  \A k \in DOMAIN decls : k[2] >= 0 =>
     LET without == [j \in DOMAIN decls \ {k} |-> decls[j]]
         DeclW(n, w) == IF <<n, w>> \in DOMAIN without THEN without[<<n, w>>] ELSE 0
     IN  \A n \in Nodes : \A s \in Scens : ~Below(s, k[2]) =>
            \* scenarios that are not below the one the line names resolve as if the line were not there
            (Eff(n, s) = EffW(without, n, s))
Emit == /\ ~done
        /\ PrintT(<<"ATTR", ToJson([decls |-> {<<k[1], k[2], decls[k]>> : k \in DOMAIN decls},
                                    eff |-> [n \in Nodes |-> [s \in Scens |-> Eff(n, s)]]])>>)
        /\ done' = TRUE /\ UNCHANGED decls
Next == Emit
Spec == Init /\ [][Next]_<<decls, done>>
=========================================================================================
