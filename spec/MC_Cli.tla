----------------------------------- MODULE MC_Cli ------------------------------------
EXTENDS Cli
S(i, c, f, o) == [input |-> i, channel |-> c, format |-> f, own |-> o, out |-> "stdout"]
SO(i, c, f, o, w) == [input |-> i, channel |-> c, format |-> f, own |-> o, out |-> w]
\* the environment's idea of text encoding (PYTHONIOENCODING=latin-1; LC_ALL=C without UTF-8 mode): project files are UTF-8
\* whatever the locale says -- same report, same report_id (the hash of the input BYTES), from a file and from stdin
EnvSits == {([env |-> e] @@ S("nonascii", c, f, "none")) : c \in {"path", "stdin"}, f \in {"json", "csv"}, e \in {"latin1io", "clocale"}}
\* every situation of one invocation (C19)
\* "escape": the file defines a report whose file name leads out of the output directory ("../x"); "badname": one whose
\* file name the library refuses -- whatever other reports the file defines, the command emits its own report and leaves no trace
Owns == {"none", "json", "csv", "both", "jsonfirst", "escape", "badname", "subdir", "planid", "noid"}      \* "subdir": own reports named "dir/file"
\* "planid": own reports whose ids ("plan", "auto") are part of the id of every auto report; "noid": a report without an id --
\* both with names the library refuses: they were not asked for
Raw == {S(i, c, f, o) : i \in {"missing", "directory", "empty", "blank", "syntax", "model", "ok"},
                        c \in {"path", "dash", "stdin"}, f \in {"json", "csv"}, o \in Owns}
\* a missing path / a directory cannot arrive over stdin; input that is nothing but white space is empty input on every channel (F91)
AllSits == {s \in Raw : ~(s.input \in {"missing", "directory"} /\ s.channel \in {"dash", "stdin"})}
           \cup {SO(i, c, f, o, w) : i \in {"ok", "syntax"}, c \in {"path", "stdin"}, f \in {"json", "csv"}, o \in {"none", "both"},
                                      w \in {"newfile", "exists", "force", "baddir", "brokenpipe"}}
           \* "partial": a project in which some tasks cannot be scheduled (no allocation, a dependency loop): success, empty dates;
           \* input that is not UTF-8, CRLF line ends, a report definition the library refuses by calling sys.exit
           \cup {S(i, c, f, o) : i \in {"undecodable", "crlf", "partial"}, c \in {"path", "dash", "stdin"}, f \in {"json", "csv"}, o \in {"none", "both"}}
           \cup {SO(i, "path", "json", "none", w) : i \in {"undecodable"}, w \in {"newfile", "brokenpipe"}}
           \* a project file whose NAME is not valid UTF-8 (legal on Linux): same contract as any readable file;
           \* diagnostics that cannot be written (stderr on a full device) must not keep the clean-up from happening
           \* "nlfname": a newline in the file NAME (the name must not end up as project text); "unreadable": read() fails (EACCES / EIO)
           \cup {S(i, "path", f, "none") : i \in {"badfname", "nlfname", "unreadable"}, f \in {"json", "csv"}}
           \cup {[S(i, c, "json", "none") EXCEPT !.out = "stderrfull"] : i \in {"ok", "syntax", "empty", "missing"}, c \in {"path", "stdin"}}
           \cup {S("nonascii", c, f, "none") : c \in {"path", "stdin"}, f \in {"json", "csv"}} \cup EnvSits
           \* "large": more than a thousand tasks to place (whatever the engine prints while it works goes to stderr)
           \cup {S("large", c, f, "none") : c \in {"path", "stdin"}, f \in {"json", "csv"}}
\* outside faults (C20): every situation here is replayed alone, and some of them among other processes
FaultSits == {([fault |-> f] @@ S(i, c, "json", "none")) : i \in {"ok", "syntax"}, c \in {"path", "stdin"}, f \in {"sigint", "fsize"}}
             \cup {([fault |-> f] @@ S("ok", c, "json", "none")) : c \in {"path", "stdin"}, f \in {"sigterm", "sighup"}}
             \cup {([fault |-> "fsizerep"] @@ S("ok", c, f, "none")) : c \in {"path", "stdin"}, f \in {"json", "csv"}}
             \* (JSON only: the final file is 38 bytes longer than the one in the temp directory -- the hash instead of the random
             \* report id -- so a file size limit between the two lets everything succeed but the last write)
             \cup {([fault |-> "fsizeout"] @@ SO("ok", c, "json", "none", w)) : c \in {"path", "stdin"}, w \in {"newfile", "force"}}
\* three concurrent processes (C20): a representative mix incl. failing ones
ConcSits == {S("ok", "path", "json", "json"), S("ok", "stdin", "json", "none"), S("syntax", "path", "csv", "both"),
             S("empty", "stdin", "json", "none"), SO("ok", "path", "csv", "csv", "exists"),
             S("undecodable", "path", "json", "none"), S("ok", "stdin", "csv", "badname"), SO("ok", "path", "json", "none", "brokenpipe"),
             S("ok", "path", "json", "escape"), S("partial", "stdin", "json", "subdir"),
             ([fault |-> "sigint"] @@ S("ok", "path", "json", "none")), ([fault |-> "fsize"] @@ S("ok", "stdin", "json", "none"))}
=======================================================================================
