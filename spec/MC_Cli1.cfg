CONSTANTS
  Procs = {1}
  Sits <- AllSits
  UniqueNames = TRUE
  EmitTerminal = TRUE
SPECIFICATION Spec
INVARIANT ExitContract
INVARIANT NoTrace
INVARIANT Isolation
INVARIANT EmitT
PROPERTY Terminates
CHECK_DEADLOCK FALSE
