------------------------------------ MODULE MC_Week -----------------------------------
(* Universe for the calendar arithmetic of limits (C05, C07, C14): the project starts on  *)
(* every kind of instant of the week -- Monday 00:00, Wednesday 13:00, Friday 15:00,       *)
(* Saturday 23:00, Sunday 00:00 -- so that the first calendar day and the first Monday-   *)
(* based week of the horizon are partial; one resource works every day 09:00 - 17:00      *)
(* under a daily and / or a weekly limit, a second one under a group limit; two tasks     *)
(* whose efforts need two to three weeks.  Hour slots, three weeks + a day.               *)
EXTENDS MCLib
CONSTANT Slice
Quick == Slice = "quick"
AllDays == << <<540, 1020>> >>
HAll == <<AllDays, AllDays, AllDays, AllDays, AllDays, AllDays, AllDays>>
LimR(kind, h) == [kind |-> kind, val |-> h, valSec |-> h * 3600, res |-> 0, periods |-> 0]
LimSets == IF Quick \/ Slice = "tiny" THEN {<< LimR("w", 10) >>, << LimR("d", 2), LimR("w", 7) >>}
           ELSE {<< LimR("w", 10) >>, << LimR("d", 2), LimR("w", 7) >>, << LimR("d", 3) >>, << LimR("w", 16), LimR("d", 5) >>}
Grp(ls) == [name |-> "g", parent |-> 0, leaf |-> FALSE, effN |-> 1, effD |-> 1, cal |-> "hours", hours |-> HAll,
            leaves |-> <<>>, tz |-> << <<0, 0>> >>, limits |-> ls, lmul |-> 1]
Mem(name, ls) == [name |-> name, parent |-> 1, leaf |-> TRUE, effN |-> 1, effD |-> 1, cal |-> "hours", hours |-> HAll,
            leaves |-> <<>>, tz |-> << <<0, 0>> >>, limits |-> ls, lmul |-> 1]
Tiny == Slice = "tiny"
Mows == IF Tiny THEN {2 * 1440 + 780, 5 * 1440 + 1380} ELSE IF Quick THEN {0, 2 * 1440 + 780, 5 * 1440 + 1380} ELSE {0, 2 * 1440 + 780, 4 * 1440 + 900, 5 * 1440 + 1380, 6 * 1440}
Codes == Mows \X LimSets \X (IF Tiny THEN {<<>>} ELSE {<<>>, << LimR("w", 12) >>}) \X (IF Tiny THEN {14} ELSE {14, 22}) \X {6, 15}
         \X {<<2>>, <<3>>} \X (IF Tiny THEN {500} ELSE {500, 700})
\* resources: 1 = group g, 2 = g.r (own limits), 3 = g.q (only the group's)
Build(c) == [Frame(<<Grp(c[3]), Mem("g.r", c[2]), Mem("g.q", <<>>)>>,
                   <<Task(1, 0, c[4] * 3600, 500, <<2>>, <<>>, -1), Task(2, 0, c[5] * 3600, c[7], c[6], <<>>, -1)>>, 1)
             EXCEPT !.mow = c[1], !.N = 529, !.declN = 529, !.endSec = 1900800, !.declEndSec = 1900800]
MCUniverse == {Build(c) : c \in Codes}
=======================================================================================
