CONSTANT MaxDecls = 2
SPECIFICATION Spec
INVARIANT OnlyThatScenario
CHECK_DEADLOCK FALSE
