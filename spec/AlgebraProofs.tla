--------------------------- MODULE AlgebraProofs ---------------------------
(* Unbounded proofs (TLAPS) of the slot/time laws that Algebra.tla ASSUMEs and TLC checks on a    *)
(* bounded grid (C17): for EVERY resolution g > 0, every index and every instant.                 *)
EXTENDS Integers, TLAPS

FloorDiv(a, b) == IF a >= 0 THEN a \div b ELSE -((-a + b - 1) \div b)
CeilDiv(a, b)  == (a + b - 1) \div b
Size(span, g)  == CeilDiv(span, g) + 1
PSize(span, g) == span \div g + 1
TimeOf(i, g)   == i * g
IndexOf(t, g)  == FloorDiv(t, g)
InTable(i, span, g) == 0 <= i /\ i < Size(span, g)

LEMMA DivMod == \A g \in Nat \ {0} : \A a \in Int : a = g * (a \div g) + (a % g) /\ 0 <= a % g /\ a % g < g
  BY SMT

LEMMA MulMono == \A g \in Nat \ {0} : \A k \in Int : (k >= 1 => g * k >= g) /\ (k <= -1 => g * k <= -g)
  BY SMT

LEMMA Distrib == \A g \in Int : \A i \in Int : \A q \in Int : i * g - g * q = g * (i - q)
  BY SMT

LEMMA DivOfMultiple == \A g \in Nat \ {0} : \A i \in Nat : (i * g) \div g = i
<1> SUFFICES ASSUME NEW g \in Nat \ {0}, NEW i \in Nat PROVE (i * g) \div g = i
  OBVIOUS
<1> DEFINE a == i * g
<1> DEFINE q == a \div g
<1> DEFINE r == a % g
<1>0. a \in Int
  OBVIOUS
<1> HIDE DEF a
<1>1. a = g * q + r /\ 0 <= r /\ r < g /\ q \in Int /\ r \in Int
  BY <1>0, DivMod
<1> HIDE DEF q, r
<1>2. g * (i - q) = r
  <2>1. i * g - g * q = r
    BY <1>0, <1>1 DEF a
  <2> QED BY <2>1, <1>1, Distrib
<1>3. i - q = 0
  BY <1>1, <1>2, MulMono
<1> QED BY <1>3, <1>1 DEF q, a

THEOREM RoundTrip == \A g \in Nat \ {0} : \A i \in Nat : IndexOf(TimeOf(i, g), g) = i
  BY DivOfMultiple DEF IndexOf, TimeOf, FloorDiv

THEOREM Monotone == \A g \in Nat \ {0} : \A i \in Int : TimeOf(i, g) < TimeOf(i + 1, g)
  BY SMT DEF TimeOf

THEOREM FloorLaw == \A g \in Nat \ {0} : \A t \in Int :
                       TimeOf(IndexOf(t, g), g) <= t /\ t < TimeOf(IndexOf(t, g) + 1, g)
  BY SMT DEF IndexOf, TimeOf, FloorDiv

LEMMA MulCancel == \A g \in Nat \ {0} : \A x \in Int : \A y \in Int : (g * x < g * y + g) => (x <= y)
<1> SUFFICES ASSUME NEW g \in Nat \ {0}, NEW x \in Int, NEW y \in Int, g * x < g * y + g PROVE x <= y
  OBVIOUS
<1>1. g * x - g * y = g * (x - y)
  BY SMT
<1>2. g * (x - y) < g
  BY <1>1
<1>3. ~(x - y >= 1)
  BY <1>2, MulMono
<1> QED BY <1>3

THEOREM Covers == \A g \in Nat \ {0} : \A span \in Nat \ {0} :
                    /\ InTable(IndexOf(span, g), span, g) /\ InTable(IndexOf(0, g), span, g)
                    /\ ~InTable(IndexOf(-1, g), span, g)
                    /\ ~InTable(IndexOf(TimeOf(Size(span, g), g), g), span, g)
                    /\ IndexOf(span, g) < PSize(span, g)
<1> SUFFICES ASSUME NEW g \in Nat \ {0}, NEW span \in Nat \ {0}
             PROVE  /\ InTable(IndexOf(span, g), span, g) /\ InTable(IndexOf(0, g), span, g)
                    /\ ~InTable(IndexOf(-1, g), span, g)
                    /\ ~InTable(IndexOf(TimeOf(Size(span, g), g), g), span, g)
                    /\ IndexOf(span, g) < PSize(span, g)
  OBVIOUS
<1> DEFINE d == span \div g
<1> DEFINE c == (span + g - 1) \div g
<1> DEFINE z == 0 \div g
<1> DEFINE o == g \div g
<1>1a. span = g * d + (span % g) /\ 0 <= span % g /\ span % g < g /\ d \in Int
  <2>1. span \in Int
    OBVIOUS
  <2> QED BY <2>1, DivMod
<1>1b. span + g - 1 = g * c + ((span + g - 1) % g) /\ 0 <= (span + g - 1) % g /\ (span + g - 1) % g < g /\ c \in Int
  <2>1. span + g - 1 \in Int
    OBVIOUS
  <2> QED BY <2>1, DivMod
<1>1. /\ span = g * d + (span % g) /\ 0 <= span % g /\ span % g < g /\ d \in Int
      /\ span + g - 1 = g * c + ((span + g - 1) % g) /\ 0 <= (span + g - 1) % g /\ (span + g - 1) % g < g /\ c \in Int
  BY <1>1a, <1>1b
<1> HIDE DEF d, c, z, o
<1>2. 0 <= d /\ d <= c /\ 0 <= c
  <2>1. g * (-1) < g * d + g /\ g * d < g * c + g /\ g * (-1) < g * c + g
    BY <1>1
  <2> QED BY <2>1, <1>1, MulCancel
<1>3. z = 0
  <2>1. (0 * g) \div g = 0
    BY DivOfMultiple
  <2>2. 0 * g = 0
    OBVIOUS
  <2> QED BY <2>1, <2>2 DEF z
<1>4. o = 1
  <2>1. (1 * g) \div g = 1
    BY DivOfMultiple
  <2>2. 1 * g = g
    OBVIOUS
  <2> QED BY <2>1, <2>2 DEF o
<1>5. Size(span, g) = c + 1 /\ PSize(span, g) = d + 1 /\ IndexOf(span, g) = d /\ IndexOf(0, g) = z
  BY DEF Size, CeilDiv, PSize, IndexOf, FloorDiv, d, c, z
<1>6. IndexOf(-1, g) = -o
  BY DEF IndexOf, FloorDiv, o
<1>7. IndexOf(TimeOf(Size(span, g), g), g) = c + 1
  <2>1. c + 1 \in Nat
    BY <1>2, <1>1
  <2>2. ((c + 1) * g) \div g = c + 1
    BY <2>1, DivOfMultiple
  <2>3. (c + 1) * g >= 0
    BY <2>1, SMT
  <2> QED BY <2>2, <2>3, <1>5 DEF IndexOf, FloorDiv, TimeOf
<1>8. d \in Int /\ c \in Int
  BY <1>1
<1> QED BY <1>2, <1>3, <1>4, <1>5, <1>6, <1>7, <1>8 DEF InTable
=============================================================================
