---------------------------------- MODULE SchedCore ----------------------------------
(***************************************************************************************)
(* Operator library of the scheduler specification.                                    *)
(*                                                                                     *)
(* Everything that is COMPUTED about a project or a scheduler state lives here and is  *)
(* shared by the model-checking specification (Sched.tla: the next state is computed)  *)
(* and by the trace-validation specification (TraceSched.tla: the next state is the    *)
(* one the implementation logged, and is compared with what these operators compute).  *)
(*                                                                                     *)
(* Time is integer seconds from project start.  Slot s is [s*G, (s+1)*G).  Ledger      *)
(* amounts of resource r are integer TICKS of 1/effN(r) second: a slot holds G*effN    *)
(* ticks, booking k ticks credits k/effD effort-seconds, a task of `effort` seconds    *)
(* needs exactly effort*effD ticks on r.  No reals, no rounding.                       *)
(***************************************************************************************)
EXTENDS Integers, Sequences, FiniteSets, TLC, Json, IOUtils

CONSTANT TraceMode          \* TRUE: proj is an index into Traces; FALSE: proj is the project record
Traces == IF TraceMode THEN ndJsonDeserialize(IOEnv.TRACE_FILE) ELSE <<>>   \* evaluated once, cached

VARIABLES proj,             \* the project (MC) or its index in Traces (trace mode); never changes
          used,             \* <<r,s>> -> ticks of slot s of resource r in use (incl. lead-in reservations)
          usage,            \* <<r,s>> -> Seq(<<task, ticks>>)   portions booked per task
          ts,               \* per task: walk state and reported dates
          lim,              \* <<"r"|"t", owner, index, period>> -> bookings counted (the mechanism)
          lsec,             \* same keys -> booked time in 1/L second (the property C05 is about this)
          cur               \* task being placed, 0 if none

P      == IF TraceMode THEN Traces[proj].project ELSE proj
G      == P.G
NT     == Len(P.tasks)
NR     == Len(P.res)
T(t)   == P.tasks[t]
R(r)   == P.res[r]
Cap(r) == G * R(r).effN                    \* ticks (1/effN s) in one slot of r
Need(t, r) == T(t).effort * R(r).effD      \* ticks task t needs on r (exact integer)
Max2(a, b) == IF a > b THEN a ELSE b
Min2(a, b) == IF a < b THEN a ELSE b
MaxOf(S) == CHOOSE m \in S : \A x \in S : x <= m
MinOf(S) == CHOOSE m \in S : \A x \in S : m <= x
Abs(x) == IF x < 0 THEN -x ELSE x
SeqSet(q) == {q[i] : i \in 1..Len(q)}
CeilDiv(a, b) == (a + b - 1) \div b

(* ------------------------------- calendar ------------------------------------ *)
InAny(ivs, x) == \E i \in 1..Len(ivs) : ivs[i][1] <= x /\ x < ivs[i][2]
\* UTC offset (minutes) of r's zone at second x: last entry of the step function starting <= x
OffMin(r, x) ==
  LET tz == R(r).tz
      idx == {i \in 1..Len(tz) : tz[i][1] <= x}
  IN  IF idx = {} THEN tz[1][2] ELSE tz[MaxOf(idx)][2]
SoW0 == P.mow * 60 + P.sos                                      \* second of the week of the project start
MoWProj(x)   == ((SoW0 + x) \div 60) % 10080                     \* project (naive) time
MoWLoc(r, x) == ((SoW0 + x) \div 60 + OffMin(r, x) + 20160) % 10080  \* resource local time
\* D1: an interval with end <= start belongs to the day it starts on and spills into the next day
InIv(iv, m)  == IF iv[2] > iv[1] THEN iv[1] <= m /\ m < iv[2] ELSE m >= iv[1]
Spill(iv, m) == iv[2] <= iv[1] /\ m < iv[2]
HoursAt(r, x) ==
  LET m == MoWLoc(r, x)  d == m \div 1440  y == m % 1440  pd == (d + 6) % 7  H == R(r).hours
  IN  (\E i \in 1..Len(H[d+1])  : InIv(H[d+1][i], y)) \/ (\E i \in 1..Len(H[pd+1]) : Spill(H[pd+1][i], y))
DefaultAt(x) == LET m == MoWProj(x) IN m \div 1440 < 5 /\ m % 1440 >= 540 /\ m % 1440 < 1020
OnShiftSec(r, x) ==
  /\ ~InAny(P.vac, x) /\ ~InAny(P.gleaves, x) /\ ~InAny(R(r).leaves, x)
  /\ IF R(r).cal = "hours" THEN HoursAt(r, x) ELSE DefaultAt(x)
OnShift(r, s) == OnShiftSec(r, s * G)          \* the engine samples the slot start
DayOf(s)  == ((SoW0 % 86400) + s * G) \div 86400
WeekOf(s) == (SoW0 + s * G) \div 604800

(* ------------------------------- trees ------------------------------------ *)
RECURSIVE AncT(_), AncR(_)
AncT(t) == IF T(t).parent = 0 THEN {} ELSE {T(t).parent} \cup AncT(T(t).parent)
AncR(r) == IF R(r).parent = 0 THEN {} ELSE {R(r).parent} \cup AncR(R(r).parent)
Kids(c)  == {t \in 1..NT : T(t).parent = c}
Leafs    == {t \in 1..NT : T(t).leaf}
AllDeps(t) == UNION {SeqSet(T(a).deps) : a \in {t} \cup AncT(t)}   \* own + every enclosing container's
\* own and inherited edges alike, and edges that name a container enclosing t (the container ends when its last leaf does);
\* a task below that container is not its own successor
Succs(t) == {u \in Leafs : \E d \in AllDeps(u) : d.p \in ({t} \cup AncT(t)) /\ d.p \notin AncT(u)}

(* ------------------------------- ledger ------------------------------------ *)
Used(r, s)  == IF <<r, s>> \in DOMAIN used THEN used[<<r, s>>] ELSE 0
Usage(r, s) == IF <<r, s>> \in DOMAIN usage THEN usage[<<r, s>>] ELSE <<>>
SumU(q) == LET F[i \in 0..Len(q)] == IF i = 0 THEN 0 ELSE F[i-1] + q[i][2] IN F[Len(q)]
Lim(k)  == IF k \in DOMAIN lim THEN lim[k] ELSE 0
LSec(k) == IF k \in DOMAIN lsec THEN lsec[k] ELSE 0
PeriodOf(kind, s) == IF kind = "d" THEN DayOf(s) ELSE WeekOf(s)
\* the counters a booking of (t, r, s) increments: r and its ancestors, t and its ancestors (filtered)
LimKeys(t, r, s) ==
  UNION {{<<"r", o, i, PeriodOf(R(o).limits[i].kind, s)>> : i \in 1..Len(R(o).limits)} : o \in {r} \cup AncR(r)} \cup
  UNION {{<<"t", o, i, PeriodOf(T(o).limits[i].kind, s)>> :
             i \in {j \in 1..Len(T(o).limits) : T(o).limits[j].res \in {0, r}}} : o \in {t} \cup AncT(t)}
LimDef(k) == IF k[1] = "r" THEN R(k[2]).limits[k[3]] ELSE T(k[2]).limits[k[3]]
LimVal(k) == LimDef(k).val
LimitsOk(t, r, s) == \A k \in LimKeys(t, r, s) : Lim(k) < LimVal(k)

(* ------------------------------- order, readiness, bounds ------------------------------------ *)
Before(a, b) == T(a).prio > T(b).prio \/ (T(a).prio = T(b).prio /\ T(a).seq < T(b).seq)
Fwd(t) == ts[t].fwd
\* Scheduling direction of every task before the loop starts.  The project-level default reaches the tasks that state none
\* (BaseFwd); then every backward leaf with an end of its own is an ANCHOR, and the tasks it depends on (own edges, leaf
\* predecessors only, transitively) are turned backward too so that they finish "just in time" for it -- unless a task is
\* forward AND has a start to keep (own or inherited from a container): that one stays, and nothing beyond it is touched.
\* `scheduling` is inherited: the nearest declaration on the way up decides, the project-level default where there is none
RECURSIVE ModeFrom(_)
ModeFrom(t) == IF T(t).expl THEN T(t).fwd ELSE IF T(t).parent = 0 THEN ~P.alap ELSE ModeFrom(T(t).parent)
BaseFwd(t) == ModeFrom(t)
Anchors == {t \in Leafs : ~BaseFwd(t) /\ T(t).pinEnd >= 0}
OwnPreds(t) == {d.p : d \in {x \in SeqSet(T(t).deps) : x.p # 0}}
Keeps(t) == BaseFwd(t) /\ (T(t).pin >= 0 \/ T(t).inhStart >= 0)
RECURSIVE PulledBack(_, _)
PulledBack(front, seen) ==
  LET nxt == {u \in UNION {OwnPreds(x) : x \in front} : u \notin seen /\ T(u).leaf /\ ~Keeps(u)}
  IN  IF nxt = {} THEN seen ELSE PulledBack(nxt, seen \cup nxt)
ExpFwd(t) == IF t \in PulledBack(Anchors, {}) THEN FALSE ELSE BaseFwd(t)
ReadyF(t) == \A d \in AllDeps(t) : d.p # 0 /\ ts[d.p].sched
\* forward: earliest instant; a container's start is a lower bound (D8), the task's own start a pin
\* `gaplength`: a gap in WORKING time of the project calendar (default hours, project time, minus global vacations and
\* holidays), counted in whole slots from the slot that contains the predecessor's date; the bound is the start of the slot
\* after the last counted one, or the end of the horizon.  The count is the number of slots that cover the length written
\* (`gaplength 2h` with 30-minute slots: four working slots; D24); `gapduration` on the same edge takes precedence.
ProjWork(s) == DefaultAt(s * G) /\ ~InAny(P.vac, s * G) /\ ~InAny(P.gleaves, s * G)
GapLenBound(x, k) == LET s0 == x \div G IN
   IF k <= 0 THEN s0 * G
   ELSE IF s0 >= P.N THEN s0 * G
   ELSE LET w == SelectSeq([i \in 1..(P.N - s0) |-> s0 + i - 1], LAMBDA s : ProjWork(s))
        IN  IF Len(w) >= k THEN (w[k] + 1) * G ELSE P.N * G
DepTime(d) == LET x == IF d.onstart THEN ts[d.p].start ELSE ts[d.p].end
              IN  IF d.gap > 0 \/ ~d.gaplen THEN x + d.gap ELSE GapLenBound(x, d.glen)
BoundF(t) ==
  IF T(t).pin >= 0 THEN T(t).pin
  ELSE MaxOf({0} \cup (IF T(t).inhStart >= 0 THEN {T(t).inhStart} ELSE {})
                 \cup {DepTime(d) : d \in {x \in AllDeps(t) : x.p # 0}})

\* backward: latest instant.  Container end reaches terminal ALAP leaves (no FS successor, no on-start dep).
RECURSIVE NearestEnd(_)
NearestEnd(t) == IF T(t).parent = 0 THEN -1
                 ELSE IF T(T(t).parent).pinEnd >= 0 THEN T(T(t).parent).pinEnd ELSE NearestEnd(T(t).parent)
FSuccs(t) == {u \in Leafs : \E d \in AllDeps(u) : d.p \in ({t} \cup AncT(t)) /\ d.p \notin AncT(u) /\ ~d.onstart}
Terminal(t) == FSuccs(t) = {} /\ \A d \in AllDeps(t) : ~d.onstart
\* (an event the user dated -- a start of its own, no work -- stays where it is: the deadline of the package around it is not its end)
UbEnd(t) == IF T(t).leaf /\ ~Fwd(t) /\ T(t).pinEnd < 0 /\ Terminal(t) /\ ~(T(t).effort = 0 /\ T(t).pin >= 0) THEN NearestEnd(t) ELSE -1
OwnEnd(t) == IF T(t).pinEnd >= 0 THEN T(t).pinEnd ELSE UbEnd(t)
\* a task that is its own (transitive) successor sits on a dependency loop: it can never be placed consistently,
\* so an own end does not make it ready (C04 / C11: the tasks of a loop stay unscheduled, with a warning)
RECURSIVE ReachS(_, _)
ReachS(front, seen) == LET nxt == UNION {Succs(x) : x \in front} \ seen
                       IN  IF nxt = {} THEN seen ELSE ReachS(nxt, seen \cup nxt)
OnLoop(t) == t \in ReachS({t}, {})
ReadyB(t) == IF OwnEnd(t) >= 0 THEN ~(T(t).pinEnd >= 0 /\ OnLoop(t))
             ELSE /\ \A d \in AllDeps(t) : d.onstart => (d.p # 0 /\ ts[d.p].sched)
                /\ \A u \in Succs(t) : ts[u].sched \/ ts[u].fwd      \* a forward successor waits for t, not t for it
GapTo(u, t) == LET ds == {d \in AllDeps(u) : d.p \in ({t} \cup AncT(t)) /\ d.p \notin AncT(u) /\ ~d.onstart}
               IN IF ds = {} THEN 0 ELSE MaxOf({d.gap : d \in ds})
\* the start of a successor as the walk sees it: where it was placed; for a forward successor that is still to come (it waits
\* for t), the earliest instant it may begin at -- its own start, else the start it inherits from a container
SeenStart(u) == IF ts[u].start >= 0 THEN ts[u].start
                ELSE IF ts[u].sched \/ ~ts[u].fwd THEN -1
                ELSE IF T(u).pin >= 0 THEN T(u).pin ELSE T(u).inhStart
Deadline(t) ==
  IF OwnEnd(t) >= 0 THEN OwnEnd(t)
  ELSE MinOf({P.declEndSec}      \* the project end as DECLARED: the extension of the horizon for work that does not fit moves nobody (C09, C16)
          \cup {ts[d.p].start - d.gap : d \in {x \in AllDeps(t) : x.onstart /\ x.p # 0 /\ ts[x.p].start >= 0}}
          \cup {SeenStart(u) - GapTo(u, t) : u \in {v \in Succs(t) : SeenStart(v) >= 0}})          \* D9
\* dates that contradict each other (an event the user dated to end before it starts) are not a schedule: never placed (F54)
Inverted(t) == T(t).effort = 0 /\ ~T(t).other /\ T(t).pin >= 0 /\ T(t).pinEnd >= 0 /\ T(t).pinEnd < T(t).pin
Ready(t) == ts[t].st = "todo" /\ T(t).leaf /\ ~Inverted(t) /\ IF Fwd(t) THEN ReadyF(t) ELSE ReadyB(t)
FirstReady(t) == Ready(t) /\ \A u \in Leafs : (u # t /\ Ready(u)) => Before(t, u)
AnyOnShift(t, s) == \E r \in SeqSet(T(t).alloc) \cup SeqSet(T(t).alt) : OnShift(r, s)
\* last slot <= s in which any candidate resource of t is on shift (0 if none); searched in blocks of 64
\* slots so that the recursion depth stays small on long horizons
RECURSIVE DownTo(_, _)
DownTo(t, s) == IF s <= 0 THEN 0
                ELSE LET c == {x \in Max2(0, s - 63)..s : AnyOnShift(t, x)}
                     IN  IF c # {} THEN MaxOf(c) ELSE DownTo(t, s - 64)
CursorB(t, dl) == DownTo(t, dl \div G - 1)

(* ------------------------------- the walk ------------------------------------ *)
HasFlag(t, f) == f \in SeqSet(T(t).flags)
Members(t) == ts[t].sel                                    \* selected resources (primaries or alternatives)
OffT(t, r, s) == IF ts[t].done = 0 /\ s = ts[t].bslot THEN ts[t].off * R(r).effN ELSE 0    \* D5
\* A team works the same instants (D3): what the busiest member has used of the slot, or the dependency
\* offset, is the base of every member.  TeamBaseL is in 1/L second; BaseOf converts to ticks of r.
TeamBaseL(t, s) == MaxOf({Used(m, s) * R(m).lmul : m \in SeqSet(Members(t))}
                         \cup {IF ts[t].done = 0 /\ s = ts[t].bslot THEN ts[t].off * P.L ELSE 0})
BaseOf(r, bl) == bl \div R(r).lmul
Base(t, r, s) == BaseOf(r, TeamBaseL(t, s))
\* only people work: a resource group has no slot table of its own and is never available (C10)
MemberFree(t, r, s) == R(r).leaf /\ OnShift(r, s) /\ Cap(r) - Base(t, r, s) > 0 /\ LimitsOk(t, r, s)
\* a team is booked as a whole: every counter must have room for all the members that count against it (F35)
TeamLimitsOk(t, s) == LET M == SeqSet(Members(t)) IN
   \A k \in UNION {LimKeys(t, m, s) : m \in M} : Lim(k) + Cardinality({m \in M : k \in LimKeys(t, m, s)}) <= LimVal(k)
Bookable(t, s) == Len(Members(t)) > 0 /\ (\A i \in 1..Len(Members(t)) : MemberFree(t, Members(t)[i], s)) /\ TeamLimitsOk(t, s)
\* --- resource availability as the look-ahead of the implementation sees it (no task limits, whole slots) ---
ResLimKeys(r, s) == UNION {{<<"r", o, i, PeriodOf(R(o).limits[i].kind, s)>> : i \in 1..Len(R(o).limits)} : o \in {r} \cup AncR(r)}
AvailR(r, s) == R(r).leaf /\ OnShift(r, s) /\ Used(r, s) < Cap(r) /\ \A k \in ResLimKeys(r, s) : Lim(k) < LimVal(k)
SlotsNeeded(t, r) == CeilDiv(Need(t, r), Cap(r))
\* index of the k-th available slot of r at or after s; -1 if the horizon ends first.  Not recursive on purpose:
\* TLC's context chain makes a recursion of depth ~N quadratic (12 min for one 4 000-event trace, measured)
KthAvail(r, s, k) == IF s >= P.N \/ k < 1 THEN -1
                     ELSE LET av == SelectSeq([i \in 1..(P.N - s) |-> s + i - 1], LAMBDA x : AvailR(r, x))
                          IN  IF Len(av) >= k THEN av[k] ELSE -1
\* one-time choice among the candidates of an allocation ("smart routing").  The candidates are the primaries (together,
\* as a team) and every alternative on its own (C03: exactly one of the candidates is booked).  The candidate whose
\* (first) resource would finish earliest wins, counting every available slot from the cursor as a whole slot; ties
\* and failures go to the earlier candidate (primaries first, then the alternatives in the order written)
\* backward tasks look the way they are placed, from the cursor towards the project start: the k-th available slot at or
\* before s (-1 if the tables begin first); the candidate that needs the shortest stretch before the deadline wins (F100)
KthAvailB(r, s, k) == IF s < 0 \/ k < 1 THEN -1
                      ELSE LET av == SelectSeq([i \in 1..(Min2(s, P.N - 1) + 1) |-> Min2(s, P.N - 1) - i + 1], LAMBDA x : AvailR(r, x))
                           IN  IF Len(av) >= k THEN av[k] ELSE -1
EstEnd(t, rs, c) == IF rs = <<>> \/ T(t).effort = 0 THEN -1
                    ELSE IF Fwd(t) THEN KthAvail(rs[1], c, SlotsNeeded(t, rs[1]))
                    ELSE LET x == KthAvailB(rs[1], c, SlotsNeeded(t, rs[1])) IN IF x < 0 THEN -1 ELSE c - x
RECURSIVE SelFrom(_, _, _, _, _)
SelFrom(t, c, i, best, be) ==
  IF i > Len(T(t).alt) THEN best
  ELSE LET e == EstEnd(t, <<T(t).alt[i]>>, c)
       IN  IF e >= 0 /\ (be < 0 \/ e < be) THEN SelFrom(t, c, i + 1, <<T(t).alt[i]>>, e) ELSE SelFrom(t, c, i + 1, best, be)
ExpSel(t, c) == IF T(t).alt = <<>> THEN T(t).alloc
                ELSE IF T(t).alloc # <<>> THEN SelFrom(t, c, 1, T(t).alloc, EstEnd(t, T(t).alloc, c))
                ELSE SelFrom(t, c, 2, <<T(t).alt[1]>>, EstEnd(t, <<T(t).alt[1]>>, c))
\* C03: what may be booked for an allocation with alternatives: the primaries, or exactly one alternative
OneCandidate(t, S) == S \subseteq SeqSet(T(t).alloc) \/ (S \subseteq SeqSet(T(t).alt) /\ Cardinality(S) <= 1)
\* a `contiguous` task starts only where its first primary resource has an unbroken run of available slots for all of it
ContigOk(t, s) == LET r1 == T(t).alloc[1] IN \A j \in 0..(SlotsNeeded(t, r1) - 1) : s + j < P.N /\ AvailR(r1, s + j)
BookableC(t, s) == Bookable(t, s) /\ ((HasFlag(t, "contiguous") /\ ts[t].done = 0 /\ Len(T(t).alloc) > 0) => ContigOk(t, s))
IsFirstBookable(t, s) ==
  IF Fwd(t) THEN s >= ts[t].cur /\ BookableC(t, s) /\ \A u \in ts[t].cur..(s-1) : ~BookableC(t, u)
            ELSE s <= ts[t].cur /\ BookableC(t, s) /\ \A u \in (s+1)..ts[t].cur : ~BookableC(t, u)
NoneBookable(t) == IF Fwd(t) THEN \A u \in ts[t].cur..(P.N - 1) : ~BookableC(t, u)
                             ELSE \A u \in 0..ts[t].cur : ~BookableC(t, u)
\* a bound (pin, dependency bound, deadline) that lies outside the scheduling horizon: the task stays unscheduled (F24, F32)
\* (the first slot the walk would look at must exist: slot of the bound going forward, slot before the deadline going backward)
BoundOutside(t) == ts[t].dl < 0 \/ (IF Fwd(t) THEN ts[t].dl \div G > P.N - 1 ELSE ts[t].dl \div G - 1 > P.N - 1)
Take(t, r, s) == Cap(r) - Base(t, r, s)
Keep(t, r) == Need(t, r) - (ts[t].done - ts[t].last)        \* ticks of the last booking that are needed
EndTicksF(t, r, s) == s * Cap(r) + ts[t].base + Keep(t, r)   \* exact end, in ticks from project start
StartTicksB(t, r, s) == (s + 1) * Cap(r) - (ts[t].base + Keep(t, r))   \* exact start of a backward task, ticks
StartF(t, r, s) == s * G + OffT(t, r, s) \div R(r).effN      \* D4
DateOk(dateSec, ticks, r) == 2 * Abs(dateSec * R(r).effN - ticks) <= R(r).effN                 \* D12

(* ------------------------------- dialects ------------------------------------ *)
MaxGapSucc(t) == \E u \in Succs(t) : \E d \in AllDeps(u) : d.p = t /\ d.maxgap
\* a task whose placement follows the plain list-scheduling rule (no waiting on purpose)
Plain(t) == ~HasFlag(t, "contiguous") /\ ~MaxGapSucc(t) /\ ~T(t).other
            /\ \A d \in AllDeps(t) : ~d.clone          \* (gap lengths are part of the reference rule since GapLenBound counts slots, D24)

(* ------------------------------- property predicates (per touched key) -------------------------- *)
\* C01: the portions booked in one slot of one resource fit side by side inside the slot
P01At(u, g, k) == u[k] <= Cap(k[1]) /\ SumU(g[k]) <= Cap(k[1]) /\ SumU(g[k]) <= u[k]
\* C02: every instant of the portion [b0, b1) ticks of slot s lies in r's working time.  The calendar of
\* the project can only change at multiples of P.cstep seconds, so sampling at that step is exact.
P02At(r, s, b0, b1) ==
  LET e == R(r).effN  st == P.cstep
      lo == (b0 \div e) \div st
      hi == (CeilDiv(b1, e) - 1) \div st
  IN  \A j \in lo..hi : OnShiftSec(r, s * G + j * st)
\* C05: booked time (1/L s) in the period of key k within the declared limit
P05At(ls, k) == ls[k] <= LimDef(k).valSec * P.L
\* C04 for one task at the moment its dates are reported (both directions; own pin exempts)
\* on-start edges of backward tasks are outside the claim (C04 quantifier) and skipped
Pinned(t) == IF Fwd(t) THEN T(t).pin >= 0 ELSE T(t).pinEnd >= 0
\* the direction of an edge's other end: a leaf has its own, a container that of the leaves inside it (whatever `scheduling`
\* says on the container itself: it places nothing)
SameDir(p, t) == IF T(p).leaf THEN ts[p].fwd = Fwd(t) ELSE \A k \in {x \in Leafs : p \in AncT(x)} : ts[k].fwd = Fwd(t)
P04Of(t, st, en) ==
   /\ ~Pinned(t) =>
         \A d \in {x \in AllDeps(t) : x.p # 0 /\ ts[x.p].sched /\ SameDir(x.p, t) /\ (x.onstart => Fwd(t))} :
            st >= (IF d.onstart THEN ts[d.p].start ELSE ts[d.p].end) + d.gap
   /\ \A u \in {v \in Succs(t) : ts[v].sched /\ ~Pinned(v) /\ ts[v].fwd = Fwd(t)} :   \* successors placed before t (backward mode)
         \A d \in {x \in AllDeps(u) : x.p \in ({t} \cup AncT(t)) /\ x.p \notin AncT(u) /\ ~x.onstart} : ts[u].start >= en + d.gap
\* C08 (forward) for a single unlimited resource: at Finish (no other task has moved since t started) every
\* on-shift slot between the bound slot and the last one has no free tick left -- t took whatever was free
\* when it passed.  Lead-in reservations of other tasks count as used (D6).
Unlimited(t, r) == LimKeys(t, r, 0) = {}
Worked(r, s) == SumU(Usage(r, s))
P08F(t, r, lastSlot) == (Len(Members(t)) = 1 /\ Unlimited(t, r) /\ T(t).pin < 0 /\ Plain(t)) =>
   \A s \in ts[t].bslot..(lastSlot - 1) : OnShift(r, s) => Used(r, s) = Cap(r)
\* C08 (backward): between the last booked slot and the deadline slot everything on shift is full
P08B(t, r, firstSlot) == (Len(Members(t)) = 1 /\ Unlimited(t, r) /\ Plain(t)) =>
   \A s \in (firstSlot + 1)..(ts[t].dl \div G - 1) : OnShift(r, s) => Used(r, s) = Cap(r)
\* C08: the only idle time a task may put in front of its work is the part of the bound's slot before the bound
LeadInOk(t, r, s, base) == \/ \E m \in SeqSet(Members(t)) : base * R(m).effN <= Used(m, s) * R(r).effN
                           \/ (Fwd(t) /\ s = ts[t].bslot /\ base <= ts[t].off * R(r).effN)
P06Of(t, st, en, effort) == st <= en /\ (effort > 0 => st < en)
\* tight: the reported start lies in the earliest booked slot, the end in (the closure of) the latest one
\* (reported times are whole seconds, D12: a residue of less than a second in the first / last slot may round onto the slot edge)
\* long enough: what every member keeps booked for t in the first and in the last slot fits between the reported start / end and
\* the edge of that slot (ticks of r are 1/effN seconds; one second of rounding, D12)
KeptIn(t, r, s) == SumU(SelectSeq(Usage(r, s), LAMBDA e : e[1] = t))
P06Fits(t, st, en, lo, hi) ==
  \A r \in SeqSet(Members(t)) :
     /\ KeptIn(t, r, lo) <= (Min2(en + 1, (lo + 1) * G) - (st - 1)) * R(r).effN
     /\ KeptIn(t, r, hi) <= ((en + 1) - Max2(st - 1, hi * G)) * R(r).effN
P06Tight(t, st, en, lo, hi) == (st \div G = lo \/ (st - 1) \div G = lo) /\ ((en - 1) \div G = hi \/ en \div G = hi)
=======================================================================================
