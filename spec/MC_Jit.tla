------------------------------------ MODULE MC_Jit ------------------------------------
(* Universe for scheduling directions (SchedCore.ExpFwd), C08 / C04: a FORWARD project    *)
(* with one backward anchor (task 3: scheduling alap + an end of its own).  Its            *)
(* predecessors 1 and 2 state no direction, or say "asap", or have a start to keep: they  *)
(* are pulled back to finish just in time, transitively, unless they keep a start.  Task 4 *)
(* is an independent forward competitor on the same resource.                             *)
EXTENDS MCLib
CONSTANT Slice
Tiny == Slice = "tiny"
Mon9  == 9 * 3600
Tue10 == 86400 + 10 * 3600
Wed12 == 2 * 86400 + 12 * 3600
Fri17 == 4 * 86400 + 17 * 3600
Ends == IF Tiny THEN {Wed12} ELSE {Wed12, Fri17}
Effs == IF Tiny THEN {7200} ELSE {3600, 10800}
Pins == {-1, Tue10}
D2 == {<<>>, <<Dep(1, 0, FALSE)>>}
D3 == {<<Dep(2, 0, FALSE)>>, <<Dep(1, 0, FALSE)>>, <<Dep(1, 0, FALSE), Dep(2, 3600, FALSE)>>}
TaskM(i, eff, pr, al, deps, pin, fwd, expl, pe) ==
   [Task(i, 0, eff, pr, al, deps, pin) EXCEPT !.fwd = fwd, !.expl = expl, !.pinEnd = pe]
\* efforts of 1 and 2, resources of 1 and 3, own start of 1 and of 2, "asap" written on 2, edges of 2 and 3, end of 3, priority of 4
Codes == Effs \X Effs \X {<<1>>, <<2>>} \X {<<1>>, <<2>>} \X Pins \X Pins \X BOOLEAN \X D2 \X D3 \X Ends \X {300, 700}
Build(c) ==
   Frame(<<Res1(0, 1), Res2(1, 1)>>,
         <<TaskM(1, c[1], 500, c[3], <<>>, c[5], TRUE, FALSE, -1),
           TaskM(2, c[2], 500, <<1>>, c[8], c[6], TRUE, c[7], -1),
           TaskM(3, 7200, 500, c[4], c[9], -1, FALSE, TRUE, c[10]),
           TaskM(4, 14400, c[11], <<1>>, <<>>, -1, TRUE, FALSE, -1)>>, 1)
MCUniverse == {Build(c) : c \in Codes}
=======================================================================================
