CONSTANTS
  Procs = {1, 2, 3}
  Sits <- ConcSits
  UniqueNames = FALSE
  EmitTerminal = FALSE
SPECIFICATION Spec
INVARIANT ExitContract
INVARIANT NoTrace
INVARIANT Isolation
PROPERTY Terminates
CHECK_DEADLOCK FALSE
