CONSTANT TraceMode = FALSE
CONSTANT Slice = "quick"
CONSTANT Universe <- MCUniverse
SPECIFICATION Spec
INVARIANT Inv01
INVARIANT Inv02
INVARIANT Inv03
INVARIANT Inv03b
INVARIANT Inv04
INVARIANT Inv06
INVARIANT Inv10b
INVARIANT Inv11
INVARIANT Emit
CHECK_DEADLOCK FALSE
