CONSTANTS
  Procs = {1}
  Sits <- FaultSits
  UniqueNames = TRUE
  EmitTerminal = TRUE
SPECIFICATION Spec
INVARIANT ExitContract
INVARIANT NoTrace
INVARIANT Isolation
INVARIANT EmitT
PROPERTY Terminates
CHECK_DEADLOCK FALSE
