----------------------------------- MODULE MC_Tree ------------------------------------
(* Universe for containers (C10, C04, C07, C09): a leaf outside, a container with a nested   *)
(* sub-container, dependencies carried by the containers (inherited by every leaf below),    *)
(* a dependency ON a container and on a sub-container, a container start (a lower bound for  *)
(* the children, never a pin), an on-start edge, and a high-priority leaf that waits for the *)
(* whole container while a low-priority leaf competes for the resource.  Whole-slot efforts, *)
(* default calendar + afternoons: every project is in the core dialect of C07.               *)
(*   1 a        leaf (r)                                                                     *)
(*   2 c        container, depends on a (none / gap 0 / gap 1 h), optional start Tue 09:00   *)
(*   3 c.s      sub-container, optional on-start edge to a                                   *)
(*   4 c.s.b    leaf                                                                         *)
(*   5 c.d      leaf, may depend on the sub-container or on c.s.b with half a slot of gap    *)
(*   6 e        leaf outside, may depend on the container c; priority above / below the rest *)
EXTENDS MCLib
CONSTANT Slice
Quick == Slice = "quick"
TN == <<"a", "c", "c.s", "c.s.b", "c.d", "e">>
Lf(i, par, eff, pr, al, deps, inh) == [Task(1, par, eff, pr, al, deps, -1) EXCEPT !.name = TN[i], !.seq = i, !.inhStart = inh]
Ct(i, par, deps, inh) == [Cont(1, deps) EXCEPT !.name = TN[i], !.seq = i, !.parent = par, !.inhStart = inh]
Tue9 == 86400 + 9 * 3600
CStart == IF Quick THEN {-1} ELSE {-1, Tue9}
CDeps == {<<>>, <<Dep(1, 0, FALSE)>>, <<Dep(1, 3600, FALSE)>>}
SDeps == IF Quick THEN {<<>>} ELSE {<<>>, <<Dep(1, 0, TRUE)>>}
DDeps == {<<>>, <<Dep(3, 0, FALSE)>>, <<Dep(4, 1800, FALSE)>>}
EDeps == {<<>>, <<Dep(2, 0, FALSE)>>, <<Dep(2, 3600, FALSE)>>}
Codes == {1, 3} \X {1, 2} \X {2} \X (IF Quick THEN {2} ELSE {1, 4}) \X CStart \X CDeps \X SDeps \X DDeps \X EDeps
         \X {<<1>>, <<2>>} \X {<<1>>} \X {300, 800} \X {400, 500}
\* a container start is written on the container only; the children see it as inhStart (the container itself too, as pin)
Build(c) == LET st == c[5] IN
   Frame(<<Res1(0, 1), Res2(1, 1)>>,
         << Lf(1, 0, c[1] * 3600, 500, <<1>>, <<>>, -1),
            [Ct(2, 0, c[6], -1) EXCEPT !.pin = st],
            Ct(3, 2, c[7], st),
            Lf(4, 3, c[2] * 3600, c[13], c[10], <<>>, st),
            Lf(5, 2, c[3] * 3600, 500, c[11], c[8], st),
            Lf(6, 0, c[4] * 3600, c[12], <<1>>, c[9], -1) >>, 1)
MCUniverse == {Build(c) : c \in Codes}
=======================================================================================
