----------------------------------- MODULE Report ------------------------------------
(***************************************************************************************)
(* A task report as a function of (schedule, report definition), and report generation  *)
(* as an action that leaves the schedule unchanged (C18).                               *)
(*                                                                                     *)
(* Abstract cell values: task index, seconds from project start or Null (-1) for a      *)
(* date, effort in seconds, priority, cost in 1/100 currency units.                     *)
(*   Rows(def, S)  == tasks of S in declaration order (leaves only if def.leafOnly,     *)
(*                    without those def.hide selects),                                   *)
(*                    one cell per column                                               *)
(*   Generate      == sched' = sched   (any number of times, any format)                *)
(* Observations of the real report code come from IOEnv.REP_FILE, one JSON object each: *)
(*   {id, def: {columns, leafOnly}, tasks: [{leaf, sched, start, end, effort, prio,       *)
(*    costCents}], json: [[cells]], csv: [[cells]], file_json, file_csv, rendered_ok,    *)
(*    after: [[{sched,start,end}] x generations]}                                        *)
(* cells are decoded by the harness into the abstract domain (strings -> integers with   *)
(* the report's effective time format; "" -> Null); rendered_ok says that every date     *)
(* cell is exactly strftime(effective format) of the scheduled instant.                  *)
(***************************************************************************************)
EXTENDS Integers, Sequences, FiniteSets, TLC, Json, IOUtils
Obs == ndJsonDeserialize(IOEnv.REP_FILE)
Null == -1

\* hidetask: "" (no statement) and "@none" hide nothing, "@all" everything, a flag name the tasks that carry the flag,
\* "~flag" those that do not (flags as the generator assigned them); isleaf() / ~isleaf() the tasks with / without sub-tasks... hidden
HasFlag(T, f) == \E i \in 1..Len(T.flags) : T.flags[i] = f
Hidden(o, t) == LET h == o.def.hide IN
   IF h = "" \/ h = "@none" THEN FALSE
   ELSE IF h = "@all" THEN TRUE
   ELSE IF h = "isleaf()" THEN o.tasks[t].leaf              \* the query function of the language: true for tasks without sub-tasks
   ELSE IF h = "~isleaf()" THEN ~o.tasks[t].leaf            \* (the idiom for "leaves only")
   ELSE IF SubSeq(h, 1, 1) = "~" THEN ~HasFlag(o.tasks[t], SubSeq(h, 2, Len(h)))
   ELSE HasFlag(o.tasks[t], h)
Listed(o) == LET n == Len(o.tasks)
                 F[i \in 0..n] == IF i = 0 THEN <<>>
                                  ELSE IF (o.def.leafOnly /\ ~o.tasks[i].leaf) \/ Hidden(o, i) THEN F[i-1] ELSE Append(F[i-1], i)
             IN F[n]
Cell(o, t, c) ==
  LET T == o.tasks[t] IN
  CASE c = "id" -> t
    [] c = "start" -> IF T.sched THEN T.start ELSE Null
    [] c = "end" -> IF T.sched THEN T.end ELSE Null
    [] c = "effort" -> T.effort
    [] c = "priority" -> T.prio
    [] c = "cost" -> T.costCents
Rows(o) == [i \in 1..Len(Listed(o)) |-> [j \in 1..Len(o.def.columns) |-> Cell(o, Listed(o)[i], o.def.columns[j])]]

\* money: within one cent (the renderer prints two decimals)
CellEq(c, a, b) == IF c = "cost" THEN (a - b <= 1 /\ b - a <= 1) ELSE a = b
TableEq(o, R) == /\ Len(R) = Len(Rows(o))
                 /\ \A i \in 1..Len(R) : Len(R[i]) = Len(o.def.columns) /\
                       \A j \in 1..Len(R[i]) : CellEq(o.def.columns[j], R[i][j], Rows(o)[i][j])
Unchanged(o) == \A g \in 1..Len(o.after) : /\ Len(o.after[g]) = Len(o.tasks)
                   /\ \A t \in 1..Len(o.tasks) : /\ o.after[g][t].sched = o.tasks[t].sched
                                                  /\ o.after[g][t].start = o.tasks[t].start0 /\ o.after[g][t].end = o.tasks[t].end0
Problems(o) ==
     (IF TableEq(o, o.json) THEN {} ELSE {"json rows differ from the schedule"})
\cup (IF TableEq(o, o.csv) THEN {} ELSE {"csv rows differ from the schedule"})
\cup (IF o.json = o.csv THEN {} ELSE {"json and csv cells differ"})
\cup (IF o.file_json = o.json /\ o.file_csv = o.csv THEN {} ELSE {"generated files differ from the in-memory report"})
\cup (IF o.rendered_ok THEN {} ELSE {"a date cell is not the scheduled instant in the effective time format"})
\cup (IF Unchanged(o) THEN {} ELSE {"generating reports altered the schedule"})

VARIABLES k, done
Init == k \in 1..Len(Obs) /\ done = FALSE
Check == /\ ~done
         /\ PrintT(<<"REPORT", Obs[k].id, Problems(Obs[k])>>)
         /\ done' = TRUE /\ UNCHANGED k
Spec == Init /\ [][Check]_<<k, done>>
=======================================================================================
