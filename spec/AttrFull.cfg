CONSTANT MaxDecls = 3
SPECIFICATION Spec
INVARIANT OnlyThatScenario
CHECK_DEADLOCK FALSE
