---------------------------- MODULE MC_SlotLedgerR ----------------------------
(* TLC instance for replay: every sequence of BookAt / Finish operations up to  *)
(* MaxOps on one slot of Cap ticks shared by three tasks, printed as histories. *)
EXTENDS Integers, Sequences, TLC
CONSTANTS CapR, MaxOps
VARIABLES used, part, lead, open, hist
TasksR == {1, 2, 3}
L == INSTANCE SlotLedger WITH Cap <- CapR, Tasks <- TasksR
InitR == L!Init /\ hist = <<>>
NextR == /\ Len(hist) < MaxOps
         /\ \/ \E t \in TasksR, o \in 0..(CapR - 1) : L!BookAt(t, o) /\ hist' = Append(hist, <<"book", t, o, used', part'[t]>>)
            \/ \E t \in TasksR, k \in 1..CapR : L!Finish(t, k) /\ hist' = Append(hist, <<"finish", t, k, used', part'[t]>>)
SpecR == InitR /\ [][NextR]_<<used, part, lead, open, hist>>
\* the invariants, with a plain sum instead of the Apalache fold
SumR == part[1] + part[2] + part[3]
InvR == used = lead + SumR /\ SumR <= CapR /\ used <= CapR /\ \A t \in open : part[t] > 0
EmitR == (Len(hist) = MaxOps \/ ~ENABLED NextR) => PrintT(<<"LEDGERHIST", hist>>)
==============================================================================
