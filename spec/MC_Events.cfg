CONSTANT TraceMode = FALSE
CONSTANT Universe <- MCUniverse
SPECIFICATION Spec
INVARIANT Inv01
INVARIANT Inv02
INVARIANT Inv03
INVARIANT Inv04
INVARIANT Inv06
INVARIANT Inv08
INVARIANT Inv11
INVARIANT Emit
CHECK_DEADLOCK FALSE
