----------------------------------- MODULE Relate ------------------------------------
(***************************************************************************************)
(* Relational obligations between two observed runs of the implementation (C09, C12,   *)
(* C14, C15, C16).  Each obligation is one JSON object of IOEnv.REL_FILE:              *)
(*   {id, shift, left: [ {sched, start, end} ... ], right: [ ... ],                    *)
(*    levs: [ [ints] ... ], revs: [ [ints] ... ], cmpEvents: BOOLEAN}                   *)
(* left/right are aligned by the harness (same task at the same position; renamed ids  *)
(* mapped back, intruder task removed, scenario selected).  The obligation holds iff    *)
(* every task has the same scheduled flag and, if scheduled, right = left shifted by    *)
(* `shift` seconds; with cmpEvents also the event digests must be identical.           *)
(***************************************************************************************)
EXTENDS Integers, Sequences, FiniteSets, TLC, Json, IOUtils
Obls == ndJsonDeserialize(IOEnv.REL_FILE)

TaskSame(a, b, sh) == a.sched = b.sched /\ (a.sched => (b.start = a.start + sh /\ b.end = a.end + sh))
                      /\ (~a.sched => ((a.start < 0) = (b.start < 0) /\ (a.end < 0) = (b.end < 0)))
Differing(o) == IF Len(o.left) # Len(o.right) THEN {0}
                ELSE {i \in 1..Len(o.left) : ~TaskSame(o.left[i], o.right[i], o.shift)}
EventsSame(o) == ~o.cmpEvents \/ o.levs = o.revs
FirstEventDiff(o) == IF EventsSame(o) THEN 0
                     ELSE IF Len(o.levs) # Len(o.revs) /\ \A i \in 1..(IF Len(o.levs) < Len(o.revs) THEN Len(o.levs) ELSE Len(o.revs)) : o.levs[i] = o.revs[i]
                          THEN (IF Len(o.levs) < Len(o.revs) THEN Len(o.levs) ELSE Len(o.revs)) + 1
                     ELSE CHOOSE i \in 1..Len(o.levs) : i <= Len(o.revs) /\ o.levs[i] # o.revs[i] /\ \A j \in 1..(i-1) : o.levs[j] = o.revs[j]

VARIABLES k, done
Init == k \in 1..Len(Obls) /\ done = FALSE
Check == /\ ~done
         /\ PrintT(<<"RELATE", Obls[k].id, Differing(Obls[k]), FirstEventDiff(Obls[k])>>)
         /\ done' = TRUE /\ UNCHANGED k
Spec == Init /\ [][Check]_<<k, done>>
=======================================================================================
