----------------------------------- MODULE MC_Core -----------------------------------
(* Bounded universe of core-dialect projects for Sched: 3 leaf tasks (optionally two   *)
(* of them inside a container), 2 resources (default calendar Mon-Fri 09-17; own       *)
(* afternoon hours, optionally efficiency 2), efforts of 1..3 slots, two priority      *)
(* levels, every dependency pattern on earlier tasks with gap 0 / half a slot / one    *)
(* slot and on-start edges, optional pinned start, optional 2-member team, optional    *)
(* daily limit.  Hour slots, one real week (Monday 00:00 + 169 slots).                 *)
EXTENDS MCLib
CONSTANT Slice               \* "quick" | "full"
Quick == Slice = "quick"
Effs  == IF Quick THEN {1, 2} ELSE {1, 2, 3}
Gaps  == {0, 1800, 3600}
\* allocation choices: 1 = r, 2 = q, 3 = team r+q (only when q has efficiency 1)
Allocs(en) == IF en = 1 THEN {<<1>>, <<2>>, <<1, 2>>} ELSE {<<1>>, <<2>>}
EffOf(al, en, k) == IF al = <<2>> THEN k * 3600 * en ELSE k * 3600       \* whole slots of clock time
DepsOf(i) == {<<>>} \cup {<<Dep(p, g, FALSE)>> : p \in 1..(i-1), g \in Gaps} \cup {<<Dep(p, 0, TRUE)>> : p \in 1..(i-1)}
Deps3 == IF Quick THEN {<<>>, <<Dep(1, 0, FALSE)>>, <<Dep(2, 1800, FALSE)>>, <<Dep(1, 0, FALSE), Dep(2, 3600, FALSE)>>, <<Dep(2, 0, TRUE)>>}
         ELSE DepsOf(3) \cup {<<Dep(1, 0, FALSE), Dep(2, g, FALSE)>> : g \in Gaps}
Pins == IF Quick THEN {-1} ELSE {-1, 122400}                 \* none | Tue 10:00
AllAllocs == {<<1>>, <<2>>, <<1, 2>>}
\* one Cartesian product (lazy, no union of big sets: TLC's set union is quadratic in deep record comparisons)
Codes == {1, 2} \X (IF Quick THEN {0} ELSE {0, 2}) \X Effs \X Effs \X (IF Quick THEN {1, 3} ELSE {1, 2, 3})
         \X {500, 600} \X {400, 500} \X AllAllocs \X (IF Quick THEN {<<1>>} ELSE {<<1>>, <<2>>}) \X AllAllocs
         \X DepsOf(2) \X Deps3 \X Pins
\* the full product has 933 120 codes (TLC enumerates sets of up to a million elements); the full slice keeps one in 24 of
\* them, chosen by a sum over all coordinates so that every value of every coordinate occurs with every value of every other
Spread(c) == c[2] + c[3] + 2 * c[4] + 3 * c[5] + c[6] \div 100 + c[7] \div 100 + Len(c[8]) + c[9][1] + 2 * Len(c[10])
             + Len(c[11]) + 3 * Len(c[12]) + (IF c[13] < 0 THEN 0 ELSE 1)
             + (IF c[11] # <<>> THEN c[11][1].gap \div 1800 ELSE 0) + (IF c[12] # <<>> THEN c[12][1].p + c[12][1].gap \div 1800 ELSE 0)
ValidCode(c) == /\ c[1] = 1 \/ (c[8] # <<1, 2>> /\ c[10] # <<1, 2>>)      \* a team needs equal efficiencies
                /\ Quick \/ Spread(c) % 24 = c[1] + 5
Build(c) == LET en == c[1] IN
   Frame(<<Res1(c[2], en), Res2(en, 1)>>,
         <<Task(1, 0, EffOf(c[8], en, c[3]), c[6], c[8], <<>>, c[13]), Task(2, 0, EffOf(c[9], en, c[4]), 500, c[9], c[11], -1),
           Task(3, 0, EffOf(c[10], en, c[5]), c[7], c[10], c[12], -1)>>, en)
Flat == {Build(c) : c \in {x \in Codes : ValidCode(x)}}
\* container c = {a, b} carrying a dependency; d outside
Nested ==
  { Frame(<<Res1(0, 1), Res2(1, 1)>>,
          <<Task(1, 0, k1 * 3600, p1, <<1>>, <<>>, -1),
            Cont(2, cd),
            [Task(3, 2, k2 * 3600, 500, a2, <<>>, -1) EXCEPT !.name = "c.b"],
            [Task(4, 2, k3 * 3600, p3, a3, d4, -1) EXCEPT !.name = "c.d"]>>, 1) :
      k1 \in {1, 2}, k2 \in {1, 2}, k3 \in {1, 3}, p1 \in {500, 600}, p3 \in {400, 500, 700}, a2 \in {<<1>>, <<2>>}, a3 \in {<<1>>, <<2>>},
      cd \in {<<>>, <<Dep(1, 0, FALSE)>>, <<Dep(1, 1800, FALSE)>>, <<Dep(1, 3600, FALSE)>>},
      d4 \in {<<>>, <<Dep(3, 0, FALSE)>>, <<Dep(3, 1800, FALSE)>>, <<Dep(1, 0, TRUE)>>} }
MCUniverse == IF Slice = "nested" THEN Nested ELSE Flat
=======================================================================================
