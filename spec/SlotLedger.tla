---------------------------- MODULE SlotLedger ----------------------------
(***************************************************************************)
(* One slot of one resource (C01, C06): tasks book what is left of the    *)
(* slot (after an optional lead-in up to a dependency offset), finishing  *)
(* tasks give back what they do not need.  Ticks are abstract units; Cap  *)
(* is the slot length.  Typed for Apalache: IndInv is inductive for EVERY *)
(* positive Cap (MC_SlotLedgerU); TLC enumerates all operation sequences   *)
(* of a small instance for replay into the real ledger (MC_SlotLedgerR).   *)
(***************************************************************************)
EXTENDS Integers, FiniteSets, Apalache
CONSTANTS
  \* @type: Int;
  Cap,
  \* @type: Set(Int);
  Tasks
VARIABLES
  \* @type: Int;
  used,
  \* @type: Int -> Int;
  part,        \* task -> ticks it holds in the slot (0 = none)
  \* @type: Int;
  lead,        \* lead-in reservations (ticks used by nobody)
  \* @type: Set(Int);
  open         \* tasks that booked and have not finished yet

\* @type: (Int -> Int, Set(Int)) => Int;
Sum(f, S) == LET \* @type: (Int, Int) => Int;
                g(acc, t) == acc + f[t] IN ApaFoldSet(g, 0, S)

Init == used = 0 /\ part = [t \in Tasks |-> 0] /\ lead = 0 /\ open = {}

\* the part of the slot before a mid-slot dependency bound is reserved (worked by nobody)
Offset(o) == /\ 0 <= o /\ o <= Cap /\ o > used
             /\ lead' = lead + (o - used) /\ used' = o /\ UNCHANGED <<part, open>>
\* a booking takes everything that is left
Book(t) == /\ part[t] = 0 /\ used < Cap
           /\ part' = [part EXCEPT ![t] = Cap - used] /\ used' = Cap /\ open' = open \cup {t}
           /\ UNCHANGED lead
\* the implementation's bookResource: offset mark and booking in one call
BookAt(t, o) == /\ part[t] = 0 /\ 0 <= o /\ o < Cap /\ used < Cap
                /\ LET base == IF o > used THEN o ELSE used IN
                      /\ lead' = lead + (base - used)
                      /\ part' = [part EXCEPT ![t] = Cap - base]
                /\ used' = Cap /\ open' = open \cup {t}
\* the finishing task keeps `keep` ticks of its booking and gives the rest back
Finish(t, keep) == /\ t \in open /\ 1 <= keep /\ keep <= part[t]
                   /\ used' = used - (part[t] - keep)
                   /\ part' = [part EXCEPT ![t] = keep] /\ open' = open \ {t} /\ UNCHANGED lead
Next == \/ \E o \in Int : Offset(o)
        \/ \E t \in Tasks : Book(t) \/ (\E o \in Int : BookAt(t, o)) \/ (\E k \in Int : Finish(t, k))

TypeOK == used \in Int /\ 0 <= used /\ used <= Cap /\ lead \in Int /\ 0 <= lead /\ lead <= Cap /\ part \in [Tasks -> Int] /\ (\A t \in Tasks : 0 <= part[t] /\ part[t] <= Cap) /\ open \in SUBSET Tasks
Ledger == used = lead + Sum(part, Tasks)                 \* used = lead-ins + portions
NoDouble == Sum(part, Tasks) <= Cap /\ used <= Cap        \* C01 on one slot
IndInv == TypeOK /\ Ledger /\ NoDouble /\ (\A t \in open : part[t] > 0)
===========================================================================
