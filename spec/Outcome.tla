----------------------------------- MODULE Outcome -----------------------------------
(***************************************************************************************)
(* Totality of the parse -> schedule pipeline (C11) as a classification of observed     *)
(* outcomes.  One JSON object per run in IOEnv.OUT_FILE:                                 *)
(*   {id, status, accepted, nevents, wall_ms, limit_ms, leafs, sched, warned, inHorizon,  *)
(*    mustReject}   mustReject: braces / macro brackets of the text do not balance outside *)
(*                  strings and comments, or two properties under one parent carry the    *)
(*                  same id (established without the parser): no schedule may be produced  *)
(*    strings and comments (a lexical fact established without the parser): no parse exists *)
(* status: "rejected" (the parser raised, nothing was scheduled)                          *)
(*         "ok"       (parse + schedule returned)                                         *)
(*         "crash"    (an exception escaped after the parser had accepted the text)      *)
(*         "hang"     (no return within the bound proportional to project size)          *)
(* The admissible behaviours of the pipeline:                                            *)
(*   Reject   -- a text the parser does not accept leaves no schedule event behind       *)
(*   Schedule -- an accepted text terminates within the bound, every leaf is either      *)
(*               scheduled with start <= end inside the horizon or unscheduled with a    *)
(*               warning                                                                 *)
(***************************************************************************************)
EXTENDS Integers, Sequences, TLC, Json, IOUtils
Runs == ndJsonDeserialize(IOEnv.OUT_FILE)

Reject(r)   == r.status = "rejected" /\ ~r.accepted /\ r.nevents = 0
Schedule(r) == r.status = "ok" /\ r.accepted /\ r.wall_ms <= r.limit_ms
               /\ r.inHorizon /\ (r.sched < r.leafs => r.warned)
\* a text that cannot be grammatical is rejected, never scheduled in part
Admissible(r) == (Reject(r) \/ Schedule(r)) /\ (r.mustReject => Reject(r))
Why(r) == IF r.mustReject /\ r.accepted /\ r.status = "ok" THEN "a text that cannot be a project (unbalanced braces / macro brackets, or an id defined twice under one parent) was accepted and scheduled"
          ELSE IF r.status = "hang" THEN "no termination within the bound"
          ELSE IF r.status = "crash" THEN "internal error after the parser accepted the text"
          ELSE IF r.status = "rejected" THEN "rejected input left schedule events behind"
          ELSE IF r.wall_ms > r.limit_ms THEN "terminated but not within the bound"
          ELSE IF ~r.inHorizon THEN "scheduled leaf outside the horizon or start > end"
          ELSE "unscheduled leaf without a warning"

VARIABLES k, done
Init == k \in 1..Len(Runs) /\ done = FALSE
Check == /\ ~done
         /\ PrintT(<<"OUTCOME", Runs[k].id, Admissible(Runs[k]), IF Admissible(Runs[k]) THEN "" ELSE Why(Runs[k])>>)
         /\ done' = TRUE /\ UNCHANGED k
Spec == Init /\ [][Check]_<<k, done>>
=======================================================================================
