----------------------------------- MODULE Algebra -----------------------------------
(***************************************************************************************)
(* Slot/time algebra, run scanning and the weekly working-hours table, as pure         *)
(* operators with their laws (C17), and validation of recorded calls of the real       *)
(* functions -- compiled and pure-Python implementation side by side -- against them   *)
(* (C17: each result equals the operator; C13: the two implementations agree).         *)
(*                                                                                     *)
(* Laws are ASSUMEd: TLC evaluates them over the whole bounded grid before anything    *)
(* else.  Calls come from IOEnv.CALLS_FILE, one JSON object per batch:                 *)
(*   {id, calls: [ {op, ..arguments.., py: result, cy: result} ]}                      *)
(* results are integers, booleans or sequences; a raised IndexError is logged as Err.              *)
(***************************************************************************************)
EXTENDS Integers, Sequences, FiniteSets, TLC, Json, IOUtils
CONSTANTS Resolutions, MaxSpan, MaxLen, TraceMode

FloorDiv(a, b) == IF a >= 0 THEN a \div b ELSE -((-a + b - 1) \div b)
CeilDiv(a, b)  == (a + b - 1) \div b
Size(span, g)  == CeilDiv(span, g) + 1                           \* entries of a slot table over [0, span]
PSize(span, g) == span \div g + 1                                \* Project.scoreboardSize (floor form)
TimeOf(i, g)   == i * g                                          \* seconds from the table start
IndexOf(t, g)  == FloorDiv(t, g)                                 \* floor-inverse, also for t < 0
InTable(i, span, g) == 0 <= i /\ i < Size(span, g)
Clamp(i, span, g) == IF i < 0 THEN 0 ELSE IF i >= Size(span, g) THEN Size(span, g) - 1 ELSE i

\* maximal runs of TRUE in pat (a sequence of BOOLEAN, index 1 = slot 0), as <<from, to)>> slot pairs
IsRun(pat, a, b) == /\ 0 <= a /\ a < b /\ b <= Len(pat) /\ \A i \in a..(b-1) : pat[i+1]
                    /\ (a = 0 \/ ~pat[a]) /\ (b = Len(pat) \/ ~pat[b+1])
\* Runs of length >= min, clipped to the window [ws, we): what collectIntervals promises
Runs(pat, ws, we, min) ==
  {<<IF a < ws THEN ws ELSE a, IF b > we THEN we ELSE b>> :
      <<a, b>> \in {<<a, b>> \in (0..Len(pat)) \X (0..Len(pat)) :
                       IsRun(pat, a, b) /\ b - a >= min /\ a < we /\ b > ws}}

\* the requested minimum length is given in seconds: a run qualifies iff it is at least that long (and at least one slot)
MinSlots(msec, g) == IF msec <= g THEN 1 ELSE (msec + g - 1) \div g

\* weekly working-hours table (D1: a cross-midnight interval belongs to the day it starts on)
InIv(iv, m)  == IF iv[2] > iv[1] THEN iv[1] <= m /\ m < iv[2] ELSE m >= iv[1]
Spill(iv, m) == iv[2] <= iv[1] /\ m < iv[2]
OnShiftMW(H, d, y) == LET pd == (d + 6) % 7 IN
   (\E i \in 1..Len(H[d+1]) : InIv(H[d+1][i], y)) \/ (\E i \in 1..Len(H[pd+1]) : Spill(H[pd+1][i], y))
DailyMinutes(ivs) == LET F[i \in 0..Len(ivs)] == IF i = 0 THEN 0 ELSE F[i-1] + (ivs[i][2] - ivs[i][1]) IN F[Len(ivs)]

(* ------------------------------- laws (C17) ------------------------------------ *)
Law_RoundTrip == \A g \in Resolutions : \A i \in 0..(MaxSpan \div g) : IndexOf(TimeOf(i, g), g) = i
Law_Floor     == \A g \in Resolutions : \A t \in (-g)..MaxSpan :
                    TimeOf(IndexOf(t, g), g) <= t /\ t < TimeOf(IndexOf(t, g) + 1, g)
Law_Monotone  == \A g \in Resolutions : \A i \in 0..(MaxSpan \div g) : TimeOf(i, g) < TimeOf(i + 1, g)
Law_Covers    == \A g \in Resolutions : \A span \in 1..MaxSpan :
                    /\ InTable(IndexOf(span, g), span, g) /\ InTable(IndexOf(0, g), span, g)
                    /\ ~InTable(IndexOf(-1, g), span, g) /\ ~InTable(IndexOf(TimeOf(Size(span, g), g), g), span, g)
                    /\ IndexOf(span, g) < PSize(span, g)
Law_Runs      == \A pat \in UNION {[1..n -> BOOLEAN] : n \in 1..MaxLen} :
                   \A ws \in 0..Len(pat), we \in 0..Len(pat), min \in 1..2 :
                     ws < we =>
                       /\ \A r \in Runs(pat, ws, we, min) : r[1] < r[2] /\ ws <= r[1] /\ r[2] <= we
                                                            /\ \A i \in r[1]..(r[2]-1) : pat[i+1]
                       /\ \A i \in ws..(we-1) : (pat[i+1] /\ \E a \in 0..i, b \in (i+1)..Len(pat) :
                                                    IsRun(pat, a, b) /\ b - a >= min)
                                                  => \E r \in Runs(pat, ws, we, min) : r[1] <= i /\ i < r[2]
                       \* runs are disjoint and not adjacent (maximality)
                       /\ \A r1, r2 \in Runs(pat, ws, we, min) : r1 # r2 => (r1[2] < r2[1] \/ r2[2] < r1[1])
Law_Night     == LET H == << << <<1320, 360>> >>, <<>>, <<>>, <<>>, <<>>, <<>>, << <<1320, 360>> >> >> IN
                    /\ OnShiftMW(H, 0, 1320) /\ ~OnShiftMW(H, 0, 1319) /\ OnShiftMW(H, 1, 0) /\ OnShiftMW(H, 1, 359)
                    /\ ~OnShiftMW(H, 1, 360) /\ OnShiftMW(H, 0, 100) /\ ~OnShiftMW(H, 2, 100) /\ OnShiftMW(H, 6, 1400)
\* the number of slots that cover a minimum length: enough, and not one more than enough
Law_MinSlots  == \A g \in Resolutions : \A m \in 1..(3 * g + 2) :
                    /\ MinSlots(m, g) >= 1 /\ MinSlots(m, g) * g >= m
                    /\ (MinSlots(m, g) > 1 => (MinSlots(m, g) - 1) * g < m)
ASSUME Law_RoundTrip /\ Law_Floor /\ Law_Monotone /\ Law_Covers /\ Law_Runs /\ Law_Night /\ Law_MinSlots

(* ------------------------------- recorded calls ------------------------------------ *)
Err == -999999                 \* how a raised IndexError is logged
Batches == IF TraceMode THEN ndJsonDeserialize(IOEnv.CALLS_FILE) ELSE <<>>
SeqToSet(q) == {q[i] : i \in 1..Len(q)}
ToPairs(q) == {<<q[i][1], q[i][2]>> : i \in 1..Len(q)}

\* the value the operator library gives for one call
Expected(B, c) ==
  CASE c.op = "size"  -> Size(c.span, c.g)
    [] c.op = "psize" -> PSize(c.span, c.g)
    [] c.op = "i2d"   -> IF c.force THEN (IF c.x < 0 THEN 0 ELSE IF c.x >= Size(c.span, c.g) THEN c.span ELSE TimeOf(c.x, c.g))
                         ELSE IF InTable(c.x, c.span, c.g) THEN TimeOf(c.x, c.g) ELSE Err
    [] c.op = "d2i"   -> IF c.force THEN Clamp(IndexOf(c.x, c.g), c.span, c.g)
                         ELSE IF InTable(IndexOf(c.x, c.g), c.span, c.g) THEN IndexOf(c.x, c.g) ELSE Err
    [] c.op = "pd2i"  -> IndexOf(c.x, c.g)            \* only asked for instants of the window
    [] c.op = "pi2d"  -> TimeOf(c.x, c.g)
    [] c.op = "d2iclamp" -> IF c.x > 0 THEN Size(c.span, c.g) - 1 ELSE 0      \* an instant far beyond (x = 1) / before (x = -1) the table, clamping requested
    [] c.op = "d2ifar" -> IF c.force THEN Size(c.span, c.g) - 1 ELSE Err      \* an instant 2^32 + k slots after the start is not slot k
    [] c.op = "i2dfar" -> IF c.force THEN c.span ELSE Err                     \* an index of 2^31 or more lies beyond every table
    [] c.op = "pd2ix" -> 0                             \* instants outside the window: no value is claimed, only py = cy (C13); two 30-bit limbs
    [] c.op = "runs"  -> Runs(c.pat, c.ws, c.we, MinSlots(c.minsec, c.g))
    [] c.op = "onshift" -> OnShiftMW(B.tables[c.h + 1], c.d, c.y)
    [] c.op = "dailymin" -> DailyMinutes(B.tables[c.h + 1][c.d + 1]) * 1000000
Norm(c, v) == IF c.op = "runs" THEN ToPairs(v) ELSE v
\* a run scan must list each run once, in increasing order
RunsWellFormed(v) == \A i \in 1..(Len(v) - 1) : v[i][2] <= v[i+1][1]
CallOk(B, c, v) == /\ c.op = "runs" => RunsWellFormed(v)
                /\ (c.op = "pd2ix" \/ Norm(c, v) = Expected(B, c))

VARIABLES b, done
Init == b \in 1..Len(Batches) /\ done = FALSE
Check ==
  /\ ~done
  /\ LET B == Batches[b]
         badPy == {i \in 1..Len(B.calls) : ~CallOk(B, B.calls[i], B.calls[i].py)}
         badCy == {i \in 1..Len(B.calls) : ~CallOk(B, B.calls[i], B.calls[i].cy)}
         differ == {i \in 1..Len(B.calls) : B.calls[i].py # B.calls[i].cy}
     IN PrintT(<<"ALGEBRA", B.id, Len(B.calls), badPy, badCy, differ>>)
  /\ done' = TRUE /\ UNCHANGED b
Next == Check
Spec == Init /\ [][Next]_<<b, done>>
=======================================================================================
