CONSTANTS
  Projects = {"A", "B", "C", "X"}
  Failing = {"X"}
  MaxCalls = 5
  ResetOnNew = TRUE
SPECIFICATION Spec
INVARIANT HistoryIndependent
INVARIANT Emit
CHECK_DEADLOCK FALSE
