----------------------------------- MODULE MC_Total ----------------------------------
(* Universe for totality (C11): dependency cycles and self-dependencies, a resource that *)
(* never works, efforts that cannot fit the horizon, zero effort, no allocation, pinned  *)
(* starts beyond the project end.  Sched must terminate on every one of them, within the  *)
(* step bound, leaving every leaf scheduled inside the horizon or unscheduled.           *)
EXTENDS MCLib
Never == [Res1(0, 1) EXCEPT !.name = "never", !.leaves = << <<0, 90000000>> >>]
Huge == 300 * 3600                 \* 300 working hours do not fit one week
MCUniverse ==
  { Frame(<<Res1(0, 1), Never>>,
          <<Task(1, 0, e1, 500, a1, d1, pin), Task(2, 0, e2, p2, a2, d2, -1), Task(3, 0, e3, 500, <<1>>, d3, -1)>>, 1) :
      e1 \in {0, 3600, Huge}, a1 \in {<<1>>, <<2>>}, d1 \in {<<>>, <<Dep(1, 0, FALSE)>>, <<Dep(2, 3600, FALSE)>>}, pin \in {-1, 9000000},
      e2 \in {3600, Huge}, p2 \in {500, 700}, a2 \in {<<1>>, <<>>}, d2 \in {<<>>, <<Dep(1, 0, FALSE)>>, <<Dep(3, 0, TRUE)>>},
      e3 \in {0, 7200}, d3 \in {<<>>, <<Dep(1, 0, FALSE)>>, <<Dep(2, 1800, FALSE)>>} }
\* every behaviour is a chain; its length is bounded by the size of the project: |tasks| * (N + 3) + c
StepBound == TLCGet("stats").diameter <= 3 * (169 + 3) + 5
=======================================================================================
