------------------------------------ MODULE MCLib ------------------------------------
(* Constructors of project records for the bounded universes of Sched (one week of hour *)
(* slots starting Monday 00:00, resources r (default calendar) and q (own hours)).      *)
EXTENDS Sched
NoHours == << <<>>, <<>>, <<>>, <<>>, <<>>, <<>>, <<>> >>
Aft == << << <<780, 1080>> >>, << <<780, 1080>> >>, << <<780, 1080>> >>, << <<780, 1080>> >>, << <<780, 1080>> >>, <<>>, <<>> >>
DLim(h) == IF h = 0 THEN <<>> ELSE << [kind |-> "d", val |-> h, valSec |-> h * 3600, res |-> 0, periods |-> 0] >>
Res1(h, lm) == [name |-> "r", parent |-> 0, leaf |-> TRUE, effN |-> 1, effD |-> 1, cal |-> "default", hours |-> NoHours,
         leaves |-> <<>>, tz |-> << <<0, 0>> >>, limits |-> DLim(h), lmul |-> lm]
Res2(en, lm) == [name |-> "q", parent |-> 0, leaf |-> TRUE, effN |-> en, effD |-> 1, cal |-> "hours", hours |-> Aft,
         leaves |-> <<>>, tz |-> << <<0, 0>> >>, limits |-> <<>>, lmul |-> lm]
Dep(p, g, os) == [p |-> p, onstart |-> os, gap |-> g, clone |-> FALSE, maxgap |-> FALSE, gaplen |-> FALSE, glen |-> 0]
Names == <<"c", "a", "b", "d">>
Task(i, par, eff, pr, al, deps, pin) == [name |-> Names[i], parent |-> par, leaf |-> TRUE, seq |-> i, prio |-> pr,
     effort |-> eff, effortExact |-> TRUE, milestone |-> FALSE, other |-> FALSE, deps |-> deps, alloc |-> al, alt |-> <<>>,
     pin |-> pin, inhStart |-> -1, pinEnd |-> -1, fwd |-> TRUE, expl |-> FALSE, flags |-> <<>>, limits |-> <<>>]
Cont(i, deps) == [name |-> Names[i], parent |-> 0, leaf |-> FALSE, seq |-> i, prio |-> 500,
     effort |-> 0, effortExact |-> TRUE, milestone |-> FALSE, other |-> FALSE, deps |-> deps, alloc |-> <<>>, alt |-> <<>>,
     pin |-> -1, inhStart |-> -1, pinEnd |-> -1, fwd |-> TRUE, expl |-> FALSE, flags |-> <<>>, limits |-> <<>>]
Frame(res, tasks, L) == [G |-> 3600, N |-> 169, declN |-> 169, mow |-> 0, sos |-> 0, endSec |-> 604800, declEndSec |-> 604800,
     L |-> L, cstep |-> 3600, vac |-> <<>>, gleaves |-> <<>>, alap |-> FALSE, res |-> res, tasks |-> tasks]

=======================================================================================
