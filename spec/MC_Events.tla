---------------------------------- MODULE MC_Events -----------------------------------
(* Universe for containers that are complete before any work is placed (C07, C09, C10,   *)
(* C11; F59): a container c holding nothing but dated milestones (one of them possibly    *)
(* in a sub-container), a high-priority leaf e that waits for c, and a low-priority        *)
(* competitor f on the same resource (very short or long).  e is ready at once; with an   *)
(* implementation that rolls c up only after the first placement f would be served first  *)
(* -- or, with nothing else to place, e would never be scheduled at all.                  *)
(*   1 c      container        2 c.s   sub-container          3 m1    milestone, dated,   *)
(*   below c or c.s           4 m2    milestone, dated, in c.s   5 e  leaf, waits for c   *)
(*   or for c.s               6 f     leaf, competitor                                    *)
EXTENDS MCLib
TN == <<"c", "c.s", "m1", "m2", "e", "f">>
Lf(i, par, eff, pr, al, deps) == [Task(1, par, eff, pr, al, deps, -1) EXCEPT !.name = TN[i], !.seq = i]
Ms(i, par, pin) == [Task(1, par, 0, 500, <<>>, <<>>, pin) EXCEPT !.name = TN[i], !.seq = i, !.milestone = TRUE]
Ct(i, par) == [Cont(1, <<>>) EXCEPT !.name = TN[i], !.seq = i, !.parent = par]
Mon9 == 9 * 3600
Tue9 == 86400 + 9 * 3600
Wed14 == 2 * 86400 + 14 * 3600
Pins == {Mon9, Tue9, Wed14}
\* edge of e: on c (with or without a gap) or on the sub-container ("s": resolved to its index below)
EDeps == {<<"c", 0>>, <<"c", 3600>>, <<"s", 0>>}
\* pin of m1, pin of m2, m1 directly in c (declared before c.s) or in c.s (m2 is always in c.s), edge of e, effort of e,
\* effort of f (1 h .. 2 days of work), priority of f, resource of e
Codes == Pins \X Pins \X BOOLEAN \X EDeps \X {3600, 14400} \X {3600, 57600} \X {100, 950} \X {<<1>>, <<2>>}
\* tasks are listed in declaration order (the order of the text): c { m1 s { m2 } }  or  c { s { m1 m2 } }
Build(c) ==
   LET sIdx == IF c[3] THEN 3 ELSE 2
       eDep == <<Dep(IF c[4][1] = "c" THEN 1 ELSE sIdx, c[4][2], FALSE)>>
       inner == IF c[3] THEN << Ct(1, 0), [Ms(3, 1, c[1]) EXCEPT !.seq = 2], [Ct(2, 1) EXCEPT !.seq = 3], Ms(4, 3, c[2]) >>
                ELSE << Ct(1, 0), Ct(2, 1), Ms(3, 2, c[1]), Ms(4, 2, c[2]) >>
   IN Frame(<<Res1(0, 1), Res2(1, 1)>>,
            inner \o << Lf(5, 0, c[5], 900, c[8], eDep), Lf(6, 0, c[6], c[7], <<1>>, <<>>) >>, 1)
MCUniverse == {Build(c) : c \in Codes}
=======================================================================================
