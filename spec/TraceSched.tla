---------------------------------- MODULE TraceSched ----------------------------------
(***************************************************************************************)
(* Batch trace validation of the scheduler.                                            *)
(*                                                                                     *)
(* Input: IOEnv.TRACE_FILE, one JSON object per run of the real code                    *)
(*   {id, status, project, events, final, warns}.                                       *)
(* Init picks one trace; every logged event is one step.  The state variables always    *)
(* hold the OBSERVED implementation state (logged values are written into them);        *)
(*   conf  says whether every step so far is the step SchedCore computes (C07, diagnosis)*)
(*   bad   collects the property predicates that fail on the observed state, with the    *)
(*         index of the event at which they failed.                                      *)
(* After the last event a Verdict step compares the reconstructed state with the final   *)
(* state read through the API and prints one VERDICT line per trace.                     *)
(***************************************************************************************)
EXTENDS SchedCore

VARIABLES l, conf, div, bad
vars == <<proj, used, usage, ts, lim, lsec, cur, l, conf, div, bad>>

TR  == Traces[proj]
Evs == TR.events
E   == Evs[l]
Note(ok, what) == IF ok \/ ~conf THEN div ELSE <<l, what>>
Flag(ok, tag) == IF ok THEN {} ELSE {tag}

Init ==
  /\ proj \in 1..Len(Traces) /\ l = 1
  /\ used = <<>> /\ usage = <<>> /\ lim = <<>> /\ lsec = <<>> /\ cur = 0
  /\ conf = TRUE /\ div = <<>> /\ bad = {}
  /\ ts = [t \in 1..NT |-> [st |-> "todo", sched |-> FALSE, fwd |-> T(t).fwd, cur |-> 0, bslot |-> 0, off |-> 0,
                            done |-> 0, last |-> 0, base |-> 0, gslot |-> -1, gok |-> TRUE, gbl |-> 0,
                            start |-> -1, end |-> -1, dl |-> -1, fslot |-> -1, sum |-> <<>>, gsec |-> -1,
                            sel |-> T(t).alloc, lo |-> -1, hi |-> -1, pb |-> {}, lk |-> {}, began |-> FALSE]]

(* ---------------- helpers on pending portions (C02 is judged on what a task finally keeps) ---------- *)
\* portion <<r, s, b0, b1>> in ticks from the slot start
PortionOf(t, r, s, base, ticks) ==
  IF Fwd(t) THEN <<r, s, base, base + ticks>> ELSE <<r, s, Cap(r) - base - ticks, Cap(r) - base>>
P02Set(S) == \A q \in S : q[4] > q[3] => P02At(q[1], q[2], q[3], q[4])

EvPrepare ==
  /\ E.ev = "Prepare"
  /\ LET ok == E.size = P.N /\ E.G = G
     IN conf' = (conf /\ ok) /\ div' = Note(ok, <<"Prepare", "N", P.N, "size", E.size>>)
  /\ UNCHANGED <<used, usage, lim, lsec, ts, cur, bad>>

EvModes ==
  /\ E.ev = "Modes"
  /\ LET wrong == {t \in Leafs : E.fwd[t] # ExpFwd(t)}      \* the directions the loop starts with are those of the specification
         \* a forward task with a start to keep that is run backward will sit idle behind its bound (C08: an ASAP task never waits)
         kept == {t \in Leafs : Keeps(t) /\ ~E.fwd[t]}
     IN /\ conf' = (conf /\ wrong = {}) /\ div' = Note(wrong = {}, <<"Modes", wrong>>)
        /\ bad' = bad \cup Flag(kept = {}, <<"C08", l, "a forward task with a start of its own is scheduled backward", kept>>)
  /\ ts' = [t \in 1..NT |-> [ts[t] EXCEPT !.fwd = E.fwd[t]]]
  /\ UNCHANGED <<used, usage, lim, lsec, cur>>

EvPreMilestone ==
  /\ E.ev = "PreMilestone"
  /\ LET t == E.task
         ok == T(t).effort = 0 /\ (T(t).pin >= 0 \/ T(t).pinEnd >= 0 \/ (NearestEnd(t) >= 0 /\ E.end = NearestEnd(t)))
     IN /\ ts' = [ts EXCEPT ![t].st = "done", ![t].sched = TRUE, ![t].start = E.start, ![t].end = E.end]
        /\ conf' = (conf /\ ok) /\ div' = Note(ok, <<"PreMilestone", t>>)
        \* a milestone has start = end; one that is not pinned by the user sits at its dependency bound,
        \* which cannot be known before its predecessors are placed
        \* (a period the user dated at both ends, not flagged as a milestone, is reported as written)
        /\ bad' = bad \cup Flag(E.start = E.end \/ (~T(t).milestone /\ T(t).pin >= 0 /\ T(t).pinEnd >= 0 /\ E.start = T(t).pin /\ E.end = T(t).pinEnd),
                                <<"C06", l, "milestone start#end", t>>)
                      \cup Flag(T(t).pin >= 0 \/ T(t).pinEnd >= 0 \/ AllDeps(t) = {}
                                   \/ (NearestEnd(t) >= 0 /\ E.end = NearestEnd(t)),   \* anchored at a container deadline
                                <<"C04", l, "unpinned milestone placed before its predecessors", t>>)
  /\ UNCHANGED <<used, usage, lim, lsec, cur>>

\* containers whose children are all scheduled but which have not been rolled up: the reference (Sched.tla, Pick) rolls them
\* up before it looks for the next task, so that whoever waits for the container is ready at once
PendingC == {c \in 1..NT : ~T(c).leaf /\ Kids(c) # {} /\ ~ts[c].sched /\ \A k \in Kids(c) : ts[k].sched}

EvPick ==
  /\ E.ev = "Pick"
  /\ LET t == E.task
         ok == cur = 0 /\ FirstReady(t) /\ E.fwd = Fwd(t) /\ PendingC = {}
         b == IF Fwd(t) THEN BoundF(t) ELSE Deadline(t)
         c == IF Fwd(t) THEN b \div G
              ELSE IF T(t).effort > 0 /\ Len(T(t).alloc) > 0 THEN CursorB(t, b) ELSE b \div G - 1
     IN /\ ts' = [ts EXCEPT ![t].st = "walk", ![t].cur = c, ![t].bslot = IF Fwd(t) THEN b \div G ELSE -1,
                            ![t].off = IF Fwd(t) THEN b % G ELSE 0, ![t].dl = b]
        /\ cur' = t
        /\ conf' = (conf /\ ok) /\ div' = Note(ok, <<"Pick", t, "ready", Ready(t), "firstReady", FirstReady(t), "containersNotRolledUp", PendingC>>)
  /\ UNCHANGED <<used, usage, lim, lsec, bad>>

EvBegin ==
  /\ E.ev = "Begin"
  /\ LET t == E.task
         ok == cur = t /\ ((T(t).effort > 0 /\ Len(T(t).alloc) > 0 /\ ~BoundOutside(t)) => (E.cursor = ts[t].cur /\ E.offset = ts[t].off))
     IN /\ ts' = [ts EXCEPT ![t].began = TRUE]
        /\ conf' = (conf /\ ok)
        /\ div' = Note(ok, <<"Begin", t, "expCursor", ts[t].cur, "got", E.cursor, "expOff", ts[t].off, "got", E.offset,
                             "bound", ts[t].dl>>)
  /\ UNCHANGED <<used, usage, lim, lsec, cur, bad>>

EvSelect ==
  /\ E.ev = "Select"
  /\ LET t == E.task
         A == SeqSet(T(t).alloc)  B == SeqSet(T(t).alt)  S == SeqSet(E.sel)
         ok == cur = t /\ E.sel = ExpSel(t, E.cursor)
     IN /\ ts' = [ts EXCEPT ![t].sel = E.sel]
        /\ conf' = (conf /\ ok) /\ div' = Note(ok, <<"Select", t, "got", E.sel, "expected", ExpSel(t, E.cursor)>>)
        \* C03: exactly one of the candidate sets is used
        /\ bad' = bad \cup Flag(OneCandidate(t, S), <<"C03", l, "an allocation with alternatives books more than one of its candidates", <<t, E.sel>>>>)
                      \* ... and the choice is made once: a task that has booked work does not move on to another candidate
                      \cup Flag(ts[t].lo < 0 \/ E.sel = ts[t].sel, <<"C03", l, "an allocation with alternatives changes its candidate after work was booked", <<t, ts[t].sel, E.sel>>>>)
  /\ UNCHANGED <<used, usage, lim, lsec, cur>>

EvBook ==
  /\ E.ev = "Book"
  /\ LET t == E.task  r == E.res  s == E.slot  k == <<r, s>>
         newGroup == ts[t].gslot # s
         gate == IF newGroup THEN IsFirstBookable(t, s) ELSE ts[t].gok
         gbl == IF newGroup THEN TeamBaseL(t, s) ELSE ts[t].gbl
         take == Cap(r) - BaseOf(r, gbl)
         ok == cur = t /\ gate /\ E.secsT = take /\ E.usedT = Cap(r) /\ r \in SeqSet(Members(t))
         keys == LimKeys(t, r, s)
         lim2 == [x \in keys |-> Lim(x) + 1] @@ lim
         lsec2 == [x \in keys |-> LSec(x) + E.secsT * R(r).lmul] @@ lsec
         used2 == (k :> E.usedT) @@ used
         usage2 == (k :> Append(Usage(r, s), <<t, E.secsT>>)) @@ usage
         m1 == Members(t)[1]
         pend == IF newGroup THEN {} ELSE ts[t].pb
     IN /\ used' = used2 /\ usage' = usage2 /\ lim' = lim2 /\ lsec' = lsec2
        /\ ts' = [ts EXCEPT ![t].gslot = s, ![t].gok = gate, ![t].gbl = gbl,
                            ![t].last = IF r = m1 THEN E.secsT ELSE @,
                            ![t].base = IF r = m1 THEN E.usedT - E.secsT ELSE @,
                            ![t].fslot = IF ts[t].fslot < 0 THEN s ELSE @,
                            ![t].lo = IF @ < 0 \/ s < @ THEN s ELSE @,
                            ![t].hi = IF s > @ THEN s ELSE @,
                            ![t].sum = (r :> (IF r \in DOMAIN ts[t].sum THEN ts[t].sum[r] ELSE 0) + E.secsT) @@ @,
                            ![t].gsec = IF newGroup THEN E.secsT * R(m1).effN ELSE @,
                            ![t].pb = pend \cup {PortionOf(t, r, s, E.usedT - E.secsT, E.secsT)},
                            ![t].lk = @ \cup keys,
                            ![t].cur = s]
        /\ conf' = (conf /\ ok)
        /\ div' = Note(ok, <<"Book", t, "res", r, "slot", s, "gate", gate, "expTake", take, "gotTake", E.secsT,
                             "gotUsed", E.usedT, "cursor", ts[t].cur>>)
        /\ bad' = bad \cup Flag(P01At(used2, usage2, k), <<"C01", l, "slot overbooked", <<r, s>>>>)
                      \cup Flag(R(r).leaf /\ T(t).leaf, <<"C10", l, "booking on a group or for a container", <<t, r>>>>)
                      \* the previous group's portions are final once a new group starts
                      \cup Flag(~newGroup \/ P02Set(ts[t].pb), <<"C02", l, "booked outside working time", <<t, ts[t].pb>>>>)
                      \* team: every member of a group is booked for the same seconds
                      \cup Flag(newGroup \/ E.secsT * R(m1).effN * R(m1).effN = ts[t].gsec * R(r).effN,
                                <<"C03", l, "team members booked for different instants", t>>)
                      \cup Flag(E.secsT > 0, <<"C03", l, "empty booking", t>>)
                      \cup Flag(~Plain(t) \/ ~newGroup \/ LeadInOk(t, r, s, E.usedT - E.secsT), <<"C08", l, "idle time reserved in front of the work", t>>)
  /\ UNCHANGED cur

EvOffsetMark ==
  /\ E.ev = "OffsetMark"
  /\ LET t == E.task  r == E.res  s == E.slot  k == <<r, s>>
         ok == cur = t /\ OffT(t, r, s) > 0 /\ E.usedT = Base(t, r, s)
         used2 == (k :> E.usedT) @@ used
         usage2 == IF k \in DOMAIN usage THEN usage ELSE (k :> <<>>) @@ usage
     IN /\ used' = used2 /\ usage' = usage2
        /\ conf' = (conf /\ ok) /\ div' = Note(ok, <<"OffsetMark", t, r, s, E.usedT>>)
        /\ bad' = bad \cup Flag(P01At(used2, usage2, k), <<"C01", l, "slot overbooked", <<r, s>>>>)
                      \cup Flag(~Plain(t) \/ LeadInOk(t, r, s, E.usedT), <<"C08", l, "idle time reserved in front of the work", t>>)
                      \* C10: time is marked as used on people only (a group has no time of its own to use up)
                      \cup Flag(R(r).leaf /\ T(t).leaf, <<"C10", l, "slot time marked as used on a group or for a container", <<t, r>>>>)
  /\ UNCHANGED <<ts, lim, lsec, cur>>

EvCredit ==
  /\ E.ev = "Credit"
  /\ LET t == E.task  s == E.slot  r == Members(t)[1]
         st == IF ts[t].done = 0 /\ Fwd(t) THEN StartF(t, r, s) ELSE ts[t].start
         ok == Fwd(t) => E.start = st
     IN /\ ts' = [ts EXCEPT ![t].done = @ + ts[t].last, ![t].start = IF Fwd(t) THEN E.start ELSE @, ![t].gslot = -1,
                            ![t].cur = s + (IF Fwd(t) THEN 1 ELSE -1)]
        /\ conf' = (conf /\ ok) /\ div' = Note(ok, <<"Credit", t, "expStart", st, "got", E.start>>)
  /\ UNCHANGED <<used, usage, lim, lsec, cur, bad>>

EvFinish ==
  /\ E.ev = "Finish"
  /\ LET t == E.task  r == E.res  s == E.slot  k == <<r, s>>
         q == Usage(r, s)
         idx == {j \in 1..Len(q) : q[j][1] = t}
         old == IF idx = {} THEN 0 ELSE q[MaxOf(idx)][2]            \* r's last booking for t (ticks)
         tot == IF r \in DOMAIN ts[t].sum THEN ts[t].sum[r] ELSE 0  \* all of r's ticks for t
         keep == Need(t, r) - (tot - old)                            \* ticks of that booking the task needs
         base == Used(r, s) - old
         expUsed == base + keep
         endT == s * Cap(r) + base + keep
         startT == (s + 1) * Cap(r) - (base + keep)
         ok == /\ r # 0 /\ idx # {} /\ tot >= Need(t, r) /\ tot - old < Need(t, r)
               /\ E.keptT = keep /\ E.usedT = expUsed
               /\ DateOk(E.date, IF Fwd(t) THEN endT ELSE startT, r)
         q2 == IF idx = {} THEN q ELSE [q EXCEPT ![MaxOf(idx)] = <<t, E.keptT>>]
         used2 == (k :> E.usedT) @@ used
         usage2 == (k :> q2) @@ usage
         keys == LimKeys(t, r, s)
         lsec2 == [x \in keys |-> LSec(x) - (old - E.keptT) * R(r).lmul] @@ lsec
         pb2 == {IF p[1] = r /\ p[2] = s
                 THEN (IF Fwd(t) THEN <<r, s, p[3], p[3] + E.keptT>> ELSE <<r, s, p[4] - E.keptT, p[4]>>)
                 ELSE p : p \in ts[t].pb}
         sums == [m \in DOMAIN ts[t].sum |-> IF m = r THEN ts[t].sum[m] - old + E.keptT ELSE ts[t].sum[m]]
     IN /\ used' = used2 /\ usage' = usage2 /\ lsec' = lsec2
        /\ ts' = [ts EXCEPT ![t].end = IF Fwd(t) THEN E.date ELSE @, ![t].start = IF Fwd(t) THEN @ ELSE E.date,
                            ![t].pb = pb2, ![t].sum = sums]
        /\ conf' = (conf /\ ok)
        /\ div' = Note(ok, <<"Finish", t, "res", r, "expKeep", keep, "got", E.keptT, "expUsed", expUsed, "got", E.usedT,
                             "expTicks", IF Fwd(t) THEN endT ELSE startT, "gotDate", E.date>>)
        /\ bad' = bad \cup Flag(r = 0 \/ P01At(used2, usage2, k), <<"C01", l, "slot overbooked", <<r, s>>>>)
                      \* C03: the last booking is needed and not empty (never a further slot beyond the effort)
                      \cup Flag(E.keptT > 0 /\ tot - old < Need(t, r), <<"C03", l, "superfluous last booking", t>>)
                      \cup Flag(IF Fwd(t) THEN P08F(t, r, s) ELSE P08B(t, r, s), <<"C08", l, "idle eligible slot", t>>)
  /\ UNCHANGED <<lim, cur>>

EvDone ==
  /\ E.ev = "Done"
  /\ LET t == E.task
         isMs == T(t).effort = 0 /\ ~T(t).other
         b == ts[t].dl
         expEndB == (ts[t].fslot + 1) * G
         ok == IF E.crashed THEN FALSE
               ELSE IF isMs THEN (IF BoundOutside(t) THEN ~E.ok ELSE E.ok /\ E.start = b /\ E.end = b)
               ELSE IF ~E.ok THEN BoundOutside(t) \/ NoneBookable(t)
               ELSE IF Fwd(t) THEN E.start = ts[t].start /\ E.end = ts[t].end
               ELSE E.start = ts[t].start /\ E.end = expEndB
         worked == ts[t].lo >= 0
     IN /\ ts' = [ts EXCEPT ![t].st = IF E.ok THEN "done" ELSE "failed", ![t].sched = E.ok,
                           ![t].start = E.start, ![t].end = E.end, ![t].pb = {}, ![t].lk = {}]
        /\ conf' = (conf /\ ok)
        /\ div' = Note(ok, <<"Done", t, "bound", b, "start", E.start, "end", E.end, "expEndB", expEndB,
                             "tsStart", ts[t].start, "tsEnd", ts[t].end>>)
        /\ bad' = bad \cup Flag(~E.ok \/ P06Of(t, E.start, E.end, T(t).effort), <<"C06", l, "start/end order", t>>)
                      \cup Flag(~E.ok \/ P04Of(t, E.start, E.end), <<"C04", l, "starts before predecessor end + gap", t>>)
                      \cup Flag(~(E.ok /\ worked) \/ P06Tight(t, E.start, E.end, ts[t].lo, ts[t].hi), <<"C06", l, "not tight", t>>)
                      \cup Flag(~(E.ok /\ worked) \/ P06Fits(t, E.start, E.end, ts[t].lo, ts[t].hi), <<"C06", l, "work booked in the first / last slot does not fit inside [start, end]", t>>)
                      \* milestone: start = end at its bound (own pin, else dependency bound)
                      \cup Flag(~(E.ok /\ isMs) \/ (E.start = E.end /\ E.start = IF Fwd(t) THEN BoundF(t) ELSE Deadline(t)), <<"C06", l, "milestone not at its bound", t>>)
                      \cup Flag(P02Set(ts[t].pb), <<"C02", l, "booked outside working time", <<t, ts[t].pb>>>>)
                      \cup Flag(\A x \in ts[t].lk : P05At(lsec, x), <<"C05", l, "limit exceeded", {x \in ts[t].lk : ~P05At(lsec, x)}>>)
                      \cup Flag(~E.ok \/ T(t).effort = 0 \/ T(t).other \/ Len(T(t).alloc) = 0 \/
                                  (worked /\ \A m \in DOMAIN ts[t].sum : ts[t].sum[m] = Need(t, m)),
                                <<"C03", l, "scheduled without its effort", <<t, ts[t].sum>>>>)
                      \* C08: a backward task ends no later than its deadline (explicit end, earliest successor start minus gap, project end)
                      \cup Flag(Fwd(t) \/ ~E.ok \/ ~worked \/ T(t).pinEnd >= 0 \/ E.end <= b, <<"C08", l, "ends after its deadline", <<t, E.end, b>>>>)
                      \cup Flag(~E.crashed, <<"C11", l, "internal error while placing the task", t>>)
  /\ cur' = 0 /\ UNCHANGED <<used, usage, lim, lsec>>

EvRollUp ==
  /\ E.ev = "RollUp"
  /\ LET c == E.task
         ks == Kids(c)
         ok == /\ \A k \in ks : ts[k].sched
               /\ E.start = MinOf({ts[k].start : k \in ks}) /\ E.end = MaxOf({ts[k].end : k \in ks})
     IN /\ ts' = [ts EXCEPT ![c].sched = TRUE, ![c].st = "done", ![c].start = E.start, ![c].end = E.end]
        /\ conf' = (conf /\ ok) /\ div' = Note(ok, <<"RollUp", c>>)
        /\ bad' = bad \cup Flag(ok, <<"C10", l, "roll-up differs from children", c>>)
  /\ UNCHANGED <<used, usage, lim, lsec, cur>>

EvLoopEnd ==
  /\ E.ev = "LoopEnd"
  /\ LET ok == ~E.crashed /\ PendingC = {} /\ \A t \in Leafs : ~Ready(t)      \* nothing schedulable was left behind
     IN /\ conf' = (conf /\ ok) /\ div' = Note(ok, <<"LoopEnd", {t \in Leafs : Ready(t)}, "containersNotRolledUp", PendingC>>)
        /\ bad' = bad \cup Flag(~E.crashed, <<"C11", l, "internal error in the scheduling loop", 0>>)
                      \* giving up is for work that does not fit, loops and bounds beyond the horizon: not while a task can be placed
                      \cup Flag(E.crashed \/ \A t \in Leafs : ~Ready(t), <<"C11", l, "the loop gave up although a task could be placed (false deadlock)", {t \in Leafs : Ready(t)}>>)
  /\ UNCHANGED <<used, usage, lim, lsec, ts, cur>>

EvWarn ==
  /\ E.ev = "Warn"
  /\ UNCHANGED <<used, usage, lim, lsec, ts, cur, conf, div, bad>>

Step == /\ l <= Len(Evs)
        /\ (EvPrepare \/ EvModes \/ EvPreMilestone \/ EvPick \/ EvBegin \/ EvSelect \/ EvBook \/ EvOffsetMark
            \/ EvCredit \/ EvFinish \/ EvDone \/ EvRollUp \/ EvLoopEnd \/ EvWarn)
        /\ l' = l + 1 /\ UNCHANGED proj

(* ---------------- final state ------------------------------------------------------------- *)
\* a milestone the user pinned outside the project window is reported where the user put it
UserPinnedMs(t) == T(t).effort = 0 /\ (T(t).pin # -1 \/ T(t).pinEnd # -1)       \* -1 = none; a pin before the project start is negative
Conts == {c \in 1..NT : ~T(c).leaf /\ Kids(c) # {}}
\* window (in ticks of r from the project start) in which the portion of task t in slot s of r must lie
WinLo(F, t, r, s) == IF t = 0 \/ ~F[t].sched THEN s * Cap(r) ELSE Max2(s * Cap(r), (F[t].start - 1) * R(r).effN)
WinHi(F, t, r, s) == IF t = 0 \/ ~F[t].sched THEN (s + 1) * Cap(r) ELSE Min2((s + 1) * Cap(r), (F[t].end + 1) * R(r).effN)
LayoutOk(F, e) ==
  LET r == e.r  s == e.s  q == e.parts  n == Len(q)
      lo(i) == WinLo(F, q[i][1], r, s)
      hi(i) == WinHi(F, q[i][1], r, s)
  IN  r = 0 \/ \A i \in 1..n : \A j \in 1..n :
        lo(i) <= hi(j) => SumU([k \in 1..n |-> <<0, IF lo(k) >= lo(i) /\ hi(k) <= hi(j) THEN q[k][2] ELSE 0>>]) <= hi(j) - lo(i)
\* the class of known finding KF-C01-mixed-direction: a slot that holds a portion of a forward-mode and of a backward-mode task
MixedDir(e) == \E i, j \in 1..Len(e.parts) : e.parts[i][1] # 0 /\ e.parts[j][1] # 0 /\ ts[e.parts[i][1]].fwd /\ ~ts[e.parts[j][1]].fwd
FinalBad(F) ==
     \* C10 on the state read through the API
     UNION {Flag((F[c].sched <=> \A k \in Kids(c) : F[k].sched)
                 /\ (F[c].sched => (F[c].start = MinOf({F[k].start : k \in Kids(c)})
                                    /\ F[c].end = MaxOf({F[k].end : k \in Kids(c)}))), <<"C10", l, "final: container differs from children", c>>) : c \in Conts}
     \* C11: every leaf ends up scheduled inside the horizon, or unscheduled with a warning
     \cup UNION {Flag(IF F[t].sched THEN F[t].start <= F[t].end /\ (UserPinnedMs(t) \/ (0 <= F[t].start /\ F[t].end <= P.N * G))
                       ELSE Len(TR.warns) > 0, <<"C11", l, "final: leaf neither scheduled in horizon nor warned", t>>) : t \in Leafs}
     \* C05 over every counter of the whole horizon
     \cup UNION {Flag(P05At(lsec, k), <<"C05", l, "final: limit exceeded", {k}>>) : k \in DOMAIN lsec}
     \* C01: the portions booked in one slot can be laid out side by side INSIDE the reported intervals of their tasks
     \* (Hall's condition over the window end points; reported dates may be off by one second, D12)
     \cup (IF "ledger" \notin DOMAIN TR THEN {} ELSE
           UNION {Flag(LayoutOk(F, TR.ledger[i]), <<"C01", l, IF MixedDir(TR.ledger[i]) THEN "final [KF-C01-mixed-direction]: portions of a forward and a backward task do not fit side by side inside the reported intervals"
                                                                 ELSE "final: portions do not fit side by side inside the reported intervals", <<TR.ledger[i].r, TR.ledger[i].s>>>>) :
                   i \in {j \in 1..Len(TR.ledger) : Len(TR.ledger[j].parts) >= 2}})
     \* C06 / C18 precondition: an unscheduled task reports no dates
\* which quantifier domains the project of this trace belongs to (decided here, not in the harness)
AlignedCal == P.cstep = G
WholeSlots == \A t \in Leafs : \A r \in SeqSet(T(t).alloc) : Need(t, r) % Cap(r) = 0
Dialect == [plain |-> \A t \in Leafs : Plain(t), aligned |-> AlignedCal, whole |-> WholeSlots,
            noalt |-> \A t \in Leafs : T(t).alt = <<>>, fwdOnly |-> \A t \in Leafs : ts[t].fwd,
            pinsAligned |-> \A t \in Leafs : T(t).pin < 0 \/ T(t).pin % G = 0]
Verdict ==
  /\ l = Len(Evs) + 1
  /\ LET F == TR.final
         finalOk == Len(F) = NT /\ \A t \in 1..NT : F[t].sched = ts[t].sched /\
                       (F[t].sched => (F[t].start = ts[t].start /\ F[t].end = ts[t].end))
         fb == IF Len(F) = NT THEN FinalBad(F) ELSE {}
         sb == Flag(TR.status = "ok", <<"C11", l, "status", TR.status>>)
     IN PrintT(<<"VERDICT", TR.id, conf, div, bad \cup fb \cup sb, finalOk, Dialect>>)
  /\ l' = l + 1 /\ UNCHANGED <<proj, used, usage, ts, lim, lsec, cur, conf, div, bad>>
Next == Step \/ Verdict
Spec == Init /\ [][Next]_vars
=======================================================================================
