CONSTANTS
  CapR = 6
  MaxOps = 5
SPECIFICATION SpecR
INVARIANT InvR
INVARIANT EmitR
CHECK_DEADLOCK FALSE
